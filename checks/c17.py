"""C17 - stochastic (two-stage SLP) and robust problems respect their defining bounds."""
import copy
import itertools
import numpy as np

from mc import scenario as S
from mc.explore import chash
from ref.grid import Grid
from .common import viol, short_exc, exc_site, solve_arrays

PROPERTY = "C17"
RULE = ("E3: 5 LP portfolios (contracts; + storage; + transport with a cost series; + multi-commodity; + structured asset with internal "
        "variables) x every present/future boundary 1..T-1 (T = 4, thorough also 6) x all multisets of 1..3 future price patterns out "
        "of 7 (incl. all identical and identical to the base); present prices shared; robust optimisation of tiny problems (4 / 6 variables) with 1..n+1 samples, i.e. also as many samples as variables; distinct = canonical case; non-trivial = the "
        "scenario optima differ (the present decision matters)")
ASSUMPTIONS = ["scenario set = the problem's own prices + the samples (as documented: the original future counts as a further sample)",
               "EEV_j, wait-and-see mean, the extensive form of the two-stage problem and the max-min problem are solved by HiGHS on EAO's own arrays "
               "(c from setup with the scenario prices), independent of make_slp / the robust target",
               "present variables = variables whose (first) mapping row lies before the boundary"]
EXPLANATION = "full product of portfolios x boundaries x scenario multisets; defining inequalities and exact extensive-form value"
MIN_NONTRIVIAL_FRACTION = 0.2
MAX_S = {"quick": 900, "thorough": 7200}

PORTFOLIOS = ["contracts", "storage", "transport", "multicommodity", "structured", "coarse", "feeder", "inactive", "periodic"]
FUTURES = ["zig", "rev", "fall", "peak", "flat", "low", "high"]   # low / high: the base pattern scaled (scenarios that do not cross)


def assets(name):
    mkt = dict(type="SimpleContract", name="mkt", nodes=["n1"], price="p", min_cap=-5.0, max_cap=5.0)
    sup = dict(type="SimpleContract", name="sup", nodes=["n1"], price="q", min_cap=0.0, max_cap=3.0, extra_costs=0.2)
    sto = dict(type="Storage", name="sto", nodes=["n1"], size=20.0, cap_in=1.0, cap_out=1.0, start_level=5.0, end_level=5.0, eff_in=0.95)
    mk2 = dict(type="SimpleContract", name="mk2", nodes=["n2"], price="q", min_cap=-4.0, max_cap=4.0)
    take = dict(type="Contract", name="gas", nodes=["n1"], price="q", min_cap=0.0, max_cap=2.0,
                min_take=dict(start=["2021-01-01T00:00"], end=["2021-01-03T00:00"], values=[20.0]))
    if name == "contracts":
        return [mkt, sup, take]
    if name == "storage":
        return [mkt, sup, sto]
    if name == "transport":
        return [mkt, mk2, dict(type="Transport", name="tr", nodes=["n1", "n2"], min_cap=0.0, max_cap=3.0, efficiency=0.9, costs_time_series="ec"), sto]
    if name == "multicommodity":
        return [mkt, mk2, dict(type="MultiCommodityContract", name="mc", nodes=["n1", "n2"], price="q", min_cap=0.0, max_cap=3.0, factors_commodities=[1.0, 0.5]), sto]
    if name == "coarse":   # an asset on a coarser grid: its variables span two steps, the boundary can fall inside one
        return [mkt, dict(type="SimpleContract", name="co", nodes=["n1"], price="q", min_cap=-2.0, max_cap=3.0, freq="12h"), sto]
    if name == "feeder":   # a node with exactly one single-variable supplier (+1) and an outgoing transport (-1)
        return [mkt, dict(type="SimpleContract", name="feed", nodes=["na"], price="q", min_cap=0.0, max_cap=3.0),
                dict(type="Transport", name="ftr", nodes=["na", "n1"], min_cap=0.0, max_cap=4.0), sto]
    if name == "inactive":   # assets whose life time lies before / after the horizon contribute nothing
        return [mkt, sup, sto,
                dict(type="Storage", name="old", nodes=["n1"], size=5.0, cap_in=1.0, cap_out=1.0, end="2020-12-31T00:00"),
                dict(type="SimpleContract", name="late", nodes=["n1"], price="q", min_cap=-1.0, max_cap=1.0, start="2021-02-01T00:00"),
                dict(type="Transport", name="oldtr", nodes=["n1", "n2"], min_cap=0.0, max_cap=1.0, end="2020-12-31T00:00")]
    if name == "periodic":   # an asset repeating its dispatch every 12 hours
        return [mkt, dict(type="SimpleContract", name="per", nodes=["n1"], price="q", min_cap=-2.0, max_cap=3.0, periodicity="12h"), sto]
    if name == "structured":
        inner = [dict(type="Storage", name="isto", nodes=["ni"], size=20.0, cap_in=1.0, cap_out=1.0, start_level=5.0, end_level=5.0),
                 dict(type="Transport", name="itr", nodes=["ni", "n1"], min_cap=-2.0, max_cap=2.0, efficiency=0.95)]
        return [mkt, dict(type="StructuredAsset", name="st", nodes=["n1"], portfolio=inner), sup]
    raise ValueError(name)


COST_ASSETS = ["contract", "contract_spread", "take", "storage", "storage_sep", "storage_nosimult", "storage_maxdur", "storage_blocks", "transport", "transport_costs", "ext_transport", "multicommodity",
               "plant", "chp_fuel", "chp_min_load", "orderbook", "scaled", "structured", "linked", "periodic", "coarse"]


def cost_asset(kind, win, T):
    g = Grid.from_json(grid_json(T))
    W = {"none": (None, None), "late": (("gp", 1), None), "early": (None, ("gp", T - 1)), "single": (("gp", 1), ("gp", 2)),
         "before": (("before", 3), ("before", 1)), "after": (("after", 1), ("after", 3))}[win]
    s_, e_ = S.resolve_window(g, W) if W != (None, None) else (None, None)
    take = dict(start=["2021-01-01T00:00"], end=["2021-01-03T00:00"], values=[20.0])
    a = {"contract": dict(type="SimpleContract", name="x", nodes=["n1"], price="p", min_cap=-5.0, max_cap=5.0),
         "contract_spread": dict(type="SimpleContract", name="x", nodes=["n1"], price="p", min_cap=-5.0, max_cap=5.0, extra_costs=0.2),
         "take": dict(type="Contract", name="x", nodes=["n1"], price="q", min_cap=0.0, max_cap=2.0, min_take=take),
         "storage": dict(type="Storage", name="x", nodes=["n1"], size=20.0, cap_in=1.0, cap_out=1.0, start_level=5.0, end_level=5.0, cost_store=0.01),
         "storage_sep": dict(type="Storage", name="x", nodes=["n1"], size=20.0, cap_in=1.0, cap_out=1.0, eff_in=0.9, cost_in=0.1, cost_out=0.2, price="q"),
         "storage_nosimult": dict(type="Storage", name="x", nodes=["n1"], size=20.0, cap_in=1.0, cap_out=1.0, eff_in=0.9, no_simult_in_out=True),
         "storage_maxdur": dict(type="Storage", name="x", nodes=["n1"], size=20.0, cap_in=1.0, cap_out=1.0, max_store_duration=12.0, cost_in=0.1),
         "storage_blocks": dict(type="Storage", name="x", nodes=["n1"], size=20.0, cap_in=1.0, cap_out=1.0, block_size="12h", cost_store=0.01),
         "transport": dict(type="Transport", name="x", nodes=["n1", "n2"], min_cap=0.0, max_cap=3.0, efficiency=0.9),
         "transport_costs": dict(type="Transport", name="x", nodes=["n1", "n2"], min_cap=0.0, max_cap=3.0, costs_time_series="ec", costs_const=0.1),
         "ext_transport": dict(type="ExtendedTransport", name="x", nodes=["n1", "n2"], min_cap=0.0, max_cap=3.0, costs_const=0.1, max_take=take),
         "multicommodity": dict(type="MultiCommodityContract", name="x", nodes=["n1", "n2"], price="q", min_cap=0.0, max_cap=3.0, factors_commodities=[1.0, 0.5]),
         "plant": dict(type="Plant", name="x", nodes=["n1"], price="q", min_cap=1.0, max_cap=4.0, start_costs=2.0, running_costs=0.5, min_runtime=12.0),
         "chp_fuel": dict(type="CHPAsset", name="x", nodes=["n1", "nh", "nf"], min_cap=1.0, max_cap=4.0, start_costs=2.0, fuel_efficiency=0.5, start_fuel=1.0),
         "chp_min_load": dict(type="CHPAsset_with_min_load_costs", name="x", nodes=["n1", "nh"], price="q", min_cap=1.0, max_cap=4.0, min_load_threshhold=2.0, min_load_costs=0.3),
         "orderbook": dict(type="OrderBook", name="x", nodes=["n1"], orders=dict(start=["2021-01-01T06:00", "2020-12-01T00:00"], end=["2021-01-01T18:00", "2020-12-02T00:00"],
                                                                               capa=[2.0, -1.5], price=[2.5, 4.0])),
         "scaled": dict(type="ScaledAsset", name="x", min_scale=0.0, max_scale=2.0, norm_scale=1.0, fix_costs=0.1,
                        base_asset=dict(type="SimpleContract", name="b", nodes=["n1"], price="p", min_cap=-5.0, max_cap=5.0, extra_costs=0.2)),
         "structured": dict(type="StructuredAsset", name="x", nodes=["n1"],
                            portfolio=[dict(type="Storage", name="isto", nodes=["ni"], size=20.0, cap_in=1.0, cap_out=1.0, price="q", cost_in=0.1),
                                       dict(type="Transport", name="itr", nodes=["ni", "n1"], min_cap=0.0, max_cap=2.0, costs_const=0.05)]),
         "linked": dict(type="LinkedAsset", name="x", nodes=["n1"], asset1_variable=["lp2", "disp", "n1"], asset2_variable=["lp1", "bool_on", None],
                        asset2_time_already_running=0, time_back=6.0, time_forward=0,
                        portfolio=[dict(type="Plant", name="lp1", nodes=["n1"], price="q", min_cap=1.0, max_cap=4.0, start_costs=2.0),
                                   dict(type="Plant", name="lp2", nodes=["n1"], price="q", min_cap=1.0, max_cap=3.0)]),
         "periodic": dict(type="SimpleContract", name="x", nodes=["n1"], price="q", min_cap=-2.0, max_cap=3.0, periodicity="12h"),
         "coarse": dict(type="SimpleContract", name="x", nodes=["n1"], price="q", min_cap=-2.0, max_cap=3.0, extra_costs=0.1, freq="12h")}[kind]
    tgt = a["base_asset"] if kind == "scaled" else a
    if kind == "orderbook":   # (an order book has no life time of its own: the orders carry the dates)
        return a
    if s_:
        tgt["start"] = s_
    if e_:
        tgt["end"] = e_
    return a


def run_cost_asset(case):
    """costs_only must return exactly the cost vector of the full problem of the same asset"""
    from mc import impl
    res = dict(status="ok", violations=[], counters={})
    V = res["violations"]
    T = case["T"]
    tags = ["cost_asset:" + case["cost_asset"], "window:" + case["window"]]
    scn = dict(grid=grid_json(T), prices={}, assets=[cost_asset(case["cost_asset"], case["window"], T)])
    P = prices_for(T, 1, 1)
    try:
        pf1, tg1, _ = impl.build(scn)
        full = pf1.assets[0].setup_optim_problem(P, tg1)
    except Exception as e:
        res.update(status="skip", validated=False, outcome="full_raises")   # (the full problem is the business of other properties)
        res["counters"]["full_raises@" + exc_site()] = 1
        return res
    try:
        pf2, tg2, _ = impl.build(scn)
        alone = pf2.assets[0].setup_optim_problem(P, tg2, costs_only=True)
        pf3, tg3, _ = impl.build(scn)
        viapf = pf3.setup_optim_problem(P, tg3, costs_only=True)
    except Exception as e:
        V.append(viol("c17.cost_samples", "costs_only raises %s at %s; the full problem of the same asset is built" % (short_exc(e), exc_site()), tags, ["cost_asset:" + case["cost_asset"], "raises"]))
        return res
    want = np.asarray(full.c, float)
    for label, got in (("asset", alone), ("portfolio", viapf)):
        if label == "asset" and case["cost_asset"] == "periodic":
            continue   # (merging of periodic variables happens at portfolio level)
        ok = isinstance(got, np.ndarray) and got.dtype != object and len(got) == len(want) and (len(want) == 0 or np.abs(np.asarray(got, float) - want).max() <= 1e-9)
        if not ok:
            V.append(viol("c17.cost_samples", "costs_only through the %s returns %s, the full problem has costs %s"
                          % (label, (np.round(got, 6).tolist() if isinstance(got, np.ndarray) and got.dtype != object else type(got).__name__), np.round(want, 6).tolist()),
                          tags, ["cost_asset:" + case["cost_asset"], label]))
            break
    res["outcome"] = "costs:%d" % len(want)
    res["fingerprint"] = chash(np.round(want, 9).tolist())
    res["nontrivial"] = bool(len(want) > 0)
    return res


def grid_json(T):
    if T in (2, 3):   # the small grids of the robust family
        return dict(start="2021-01-01T00:00", end="2021-01-02T00:00" if T == 2 else "2021-01-02T12:00", freq="12h", mtu="h", tz=None)
    return dict(start="2021-01-01T00:00", end="2021-01-02T00:00" if T == 4 else "2021-01-02T12:00", freq="6h", mtu="h", tz=None)


def run_robust_small(case):
    """robust optimisation of tiny problems with every number of samples around the number of variables (incl. equal):
    the worst case of the returned solution over the samples equals the exact max-min optimum (epigraph LP on the arrays)"""
    from mc import impl
    import scipy.sparse as sp
    res = dict(status="ok", violations=[], counters={})
    V = res["violations"]
    T = case["T"]
    nS = len(case["futures"])
    tags = ["robust_small", "pf:" + case["pf"], "T:%d" % T, "S:%d" % nS]
    mkt = dict(type="SimpleContract", name="mkt", nodes=["n1"], price="p", min_cap=-5.0, max_cap=5.0)
    sup = dict(type="SimpleContract", name="sup", nodes=["n1"], price="q", min_cap=0.0, max_cap=3.0)
    sto = dict(type="Storage", name="sto", nodes=["n1"], size=20.0, cap_in=1.0, cap_out=1.0, start_level=5.0, end_level=5.0)
    scn = dict(grid=grid_json(T), prices={}, assets={"two": [mkt, sup], "sto": [mkt, sto], "three": [mkt, sup, sto]}[case["pf"]])
    P0 = prices_for(T, 0, None)
    samples = [prices_for(T, 0, f) for f in case["futures"]]
    try:
        pf, tg, _ = impl.build(scn)
        op = pf.setup_optim_problem(P0, tg)
        arr = impl.problem_arrays(op)
        csamp = pf.create_cost_samples(samples, tg)
        n = len(arr["c"])
        tags.append("square" if nS == n else "non_square")
        rr = op.optimize(target="robust", samples=csamp, solver="SCIPY")
    except Exception as e:
        V.append(viol("c17.raises", "robust optimisation of a small problem raises %s at %s" % (short_exc(e), exc_site()), tags, ["robust_small", "raises"]))
        return res
    if isinstance(rr, str):
        V.append(viol("c17.robust_status", "robust optimisation reports %r" % rr, tags, ["robust_small"]))
        return res
    cs = [np.asarray(c, float) for c in csamp]
    xr = np.asarray(rr.x, float)
    wr = min(float(-(c * xr).sum()) for c in cs)
    Af = sp.csr_matrix(arr["A"])
    rows = sp.hstack([Af, sp.csr_matrix((Af.shape[0], 1))])
    epi = sp.csr_matrix(np.array([np.concatenate([-c, [-1.0]]) for c in cs]))
    cz = np.zeros(n + 1)
    cz[-1] = -1.0
    st, x, val = solve_arrays(cz, np.concatenate([arr["l"], [-1e9]]), np.concatenate([arr["u"], [1e9]]), sp.vstack([rows, epi]),
                              np.concatenate([arr["b"], np.zeros(nS)]), arr["cType"] + "L" * nS)
    tolr = 1e-6 * (1 + abs(wr))
    if st == "optimal" and abs(val - wr) > 10 * tolr:
        V.append(viol("c17.robust_exact", "%d samples, %d variables: worst case of the robust solution %.8f, max-min optimum over the samples %.8f" % (nS, n, wr, val),
                      tags, ["robust_small", "square" if nS == n else "non_square"]))
    res["nontrivial"] = bool(np.abs(xr).sum() > 1e-9)
    res["outcome"] = "robust_small"
    res["fingerprint"] = "rs=%.4f" % wr
    res["counters"]["robust_small_square" if nS == n else "robust_small_other"] = 1
    return res


def build_cases(tier):
    cases = []
    Ts = [4] if tier == "quick" else [4, 6]
    for pf in PORTFOLIOS:
        for T in Ts:
            for bd in range(1, T):
                for n in (1, 2, 3):
                    for ms in itertools.combinations_with_replacement(range(len(FUTURES)), n):
                        if tier == "quick" and n == 3 and (sum(ms) + bd) % 2:
                            continue
                        c = dict(pf=pf, T=T, boundary=bd, futures=list(ms))
                        c["key"] = chash(c)
                        cases.append(c)
    # cost vectors alone (the path price samples take) for every asset class x life time placement
    for kind in COST_ASSETS:
        for win in ("none", "late", "early", "single", "before", "after"):
            for T in Ts:
                c = dict(cost_asset=kind, window=win, T=T)
                c["key"] = chash(c)
                cases.append(c)
    # robust optimisation of tiny problems: every number of samples from 1 to (number of variables + 1), all subsets of the patterns of that size
    for pf, T, n in (("two", 2, 4), ("sto", 2, 4), ("two", 3, 6), ("three", 2, 6)):
        for k in range(1, min(n + 1, len(FUTURES)) + 1):
            combos = list(itertools.combinations(range(len(FUTURES)), k))
            for ms in (combos if tier == "thorough" or k == n else combos[::3]):
                c = dict(robust_small=True, pf=pf, T=T, futures=list(ms))
                c["key"] = chash(c)
                cases.append(c)
    stats = dict(explorer="E3 product", states=len(cases), transitions=len(cases) * 4,
                 bound=dict(T=Ts, scenario_multisets="all of size 1..3 over 5 patterns", portfolios=len(PORTFOLIOS)))
    return cases, stats


def prices_for(T, bd, fut):
    base = S.make_prices(T, ("zig", "rev"))
    if fut is None:
        return {k: np.array(v) for k, v in base.items()}
    pat = FUTURES[fut]
    if pat in ("low", "high"):
        f = 0.5 if pat == "low" else 2.0
        alt = {k: [x * f for x in v] for k, v in base.items()}
    else:
        other = {"zig": "rev", "rev": "fall", "fall": "peak", "peak": "flat", "flat": "zig"}[pat]
        alt = S.make_prices(T, (pat, other))
    alt["ec"] = [x * (1.0 + 0.5 * fut) for x in alt["ec"]]
    out = {}
    for k in base:
        out[k] = np.array(list(base[k][:bd]) + list(alt[k][bd:]))
    return out


def run_case(case):
    from mc import impl
    import eaopack as eao
    from copy import deepcopy
    if "cost_asset" in case:
        return run_cost_asset(case)
    if case.get("robust_small"):
        return run_robust_small(case)
    res = dict(status="ok", violations=[], counters={})
    V = res["violations"]
    T, bd = case["T"], case["boundary"]
    tags = ["pf:" + case["pf"], "boundary:%d" % bd, "S:%d" % len(case["futures"])]
    ctag = ["pf:" + case["pf"]]
    gj = grid_json(T)
    scn = dict(grid=gj, prices={}, assets=assets(case["pf"]))
    P0 = prices_for(T, bd, None)
    samples = [prices_for(T, bd, f) for f in case["futures"]]
    allP = [P0] + samples
    nS = len(samples)
    try:
        portf, tg, _ = impl.build(scn)
        op = portf.setup_optim_problem(P0, tg)
        base = impl.problem_arrays(op)
        m = op.mapping
        first = m[~m.index.duplicated(keep="first")]
        n = len(base["c"])
        step_of = {int(i): int(t) for i, t in zip(first.index.values, first["time_step"].values)}
        present = np.array([step_of.get(j, 0) < bd for j in range(n)])
        # cost vectors per scenario: from a set-up with the scenario prices (fresh objects) ...
        cs = []
        for P in allP:
            pf2, tg2, _ = impl.build(scn)
            cs.append(np.asarray(pf2.setup_optim_problem(P, tg2).c, float))
        # ... and through create_cost_samples (what SLP / robust use)
        c_samples = portf.create_cost_samples(samples, tg)
    except Exception as e:
        V.append(viol("c17.raises", "set-up / cost samples raise %s at %s" % (short_exc(e), exc_site()), tags, ctag + ["setup"]))
        return res
    for k, (a, b) in enumerate(zip(c_samples, cs[1:])):
        if len(a) != len(b) or np.abs(np.asarray(a, float) - b).max() > 1e-9:
            V.append(viol("c17.cost_samples", "cost sample %d differs from the cost vector of the problem set up with the same prices (max diff %.6f)"
                          % (k, np.abs(np.asarray(a, float) - b).max() if len(a) == len(b) else -1), tags, ctag + ["cost_samples"]))
            break
    A, b, cT, l, u = base["A"], base["b"], base["cType"], base["l"], base["u"]
    # per-scenario optima (HiGHS on the arrays)
    Vk, Xk = [], []
    for c in cs:
        st, x, val = solve_arrays(c, l, u, A, b, cT)
        if st != "optimal":
            res.update(status="skip", validated=False, outcome="scenario_" + st)
            return res
        Vk.append(val)
        Xk.append(x)
    # ---------------- SLP
    try:
        start_future = tg.timepoints[bd]
        slp = eao.stoch_lin_prog.make_slp(deepcopy(op), portf, tg, start_future, samples)
        rs = slp.optimize(solver="SCIPY")
    except Exception as e:
        V.append(viol("c17.raises", "make_slp / optimize raise %s at %s" % (short_exc(e), exc_site()), tags, ctag + ["slp"]))
        return res
    if isinstance(rs, str):
        V.append(viol("c17.slp_status", "SLP reports %r, every scenario problem is feasible" % rs, tags, ctag))
        return res
    V_slp = float(rs.value)
    n_p, n_f = int(present.sum()), int((~present).sum())
    if len(slp.c) != n_p + (nS + 1) * n_f:
        V.append(viol("c17.slp_columns", "SLP has %d columns, expected %d present + %d x %d future" % (len(slp.c), n_p, nS + 1, n_f), tags, ctag))
    tol = 1e-6 * (1 + abs(V_slp))
    mean_ws = float(np.mean(Vk))
    if V_slp > mean_ws + tol:
        V.append(viol("c17.slp_upper", "SLP optimum %.8f exceeds the mean of the per-scenario optima %.8f" % (V_slp, mean_ws), tags, ctag))
    for j in range(nS + 1):
        lj, uj = l.copy(), u.copy()
        lj[present] = Xk[j][present]
        uj[present] = Xk[j][present]
        vals = []
        for c in cs:
            st, x, val = solve_arrays(c, lj, uj, A, b, cT)
            if st != "optimal":
                vals = None
                break
            vals.append(val)
        if vals is None:
            continue
        eev = float(np.mean(vals))
        if V_slp < eev - tol:
            V.append(viol("c17.slp_lower", "SLP optimum %.8f is below the expected value %.8f of fixing the present to the solution of scenario %d" % (V_slp, eev, j), tags, ctag))
            break
    # exact: extensive form built here from the arrays
    import scipy.sparse as sp
    Af = sp.csr_matrix(A)
    Ap_, Af_ = Af[:, np.where(present)[0]], Af[:, np.where(~present)[0]]
    blocks = []
    for k in range(nS + 1):
        row = [Ap_] + [Af_ if kk == k else sp.csr_matrix((Af.shape[0], n_f)) for kk in range(nS + 1)]
        blocks.append(sp.hstack(row))
    Aext = sp.vstack(blocks)
    bext = np.tile(b, nS + 1)
    cText = cT * (nS + 1)
    c_ext = np.concatenate([np.mean([c[present] for c in cs], axis=0)] + [c[~present] / (nS + 1) for c in cs])
    l_ext = np.concatenate([l[present]] + [l[~present]] * (nS + 1))
    u_ext = np.concatenate([u[present]] + [u[~present]] * (nS + 1))
    st, x, V_ext = solve_arrays(c_ext, l_ext, u_ext, Aext, bext, cText)
    if st == "optimal" and abs(V_ext - V_slp) > tol * 10:
        V.append(viol("c17.slp_exact", "SLP optimum %.8f, extensive form of the two-stage problem %.8f (scenarios: own prices + %d samples)" % (V_slp, V_ext, nS), tags, ctag))
    if len(set(case["futures"])) == 1 and all(np.abs(cs[0] - c).max() < 1e-12 for c in cs) and abs(V_slp - Vk[0]) > tol:
        V.append(viol("c17.slp_identical", "all scenarios coincide: SLP %.8f, deterministic optimum %.8f" % (V_slp, Vk[0]), tags, ctag))
    # ---------------- robust (samples only, as documented)
    if nS >= 1:
        try:
            pf3, tg3, _ = impl.build(scn)
            op3 = pf3.setup_optim_problem(P0, tg3)
            csamp = pf3.create_cost_samples(samples, tg3)
            # (the target is matched without regard to case; every third case spells it with a capital)
            rr = op3.optimize(target=("Robust" if (bd + nS + len(case["pf"])) % 3 == 0 else "robust"), samples=csamp, solver="SCIPY")
        except Exception as e:
            V.append(viol("c17.raises", "robust optimisation raises %s at %s" % (short_exc(e), exc_site()), tags, ctag + ["robust"]))
            return res
        if isinstance(rr, str):
            V.append(viol("c17.robust_status", "robust optimisation reports %r" % rr, tags, ctag))
        else:
            xr = np.asarray(rr.x, float)
            worst = lambda x: min(float(-(c * x).sum()) for c in cs[1:])
            wr = worst(xr)
            tolr = 1e-6 * (1 + abs(wr))
            for k in range(1, nS + 1):
                if wr < worst(Xk[k]) - tolr:
                    V.append(viol("c17.robust_lower", "worst case of the robust solution %.8f is below the worst case %.8f of the optimum of scenario %d" % (wr, worst(Xk[k]), k), tags, ctag))
                    break
            if wr > min(Vk[1:]) + tolr:
                V.append(viol("c17.robust_upper", "worst case of the robust solution %.8f exceeds the smallest per-scenario optimum %.8f" % (wr, min(Vk[1:])), tags, ctag))
            # exact max-min by an epigraph LP on the arrays
            ne = n + 1
            rows = sp.hstack([Af, sp.csr_matrix((Af.shape[0], 1))])
            epi = sp.csr_matrix(np.array([np.concatenate([-c, [-1.0]]) for c in cs[1:]]))   # -c.x - z >= 0
            Aall = sp.vstack([rows, epi])
            ball = np.concatenate([b, np.zeros(nS)])
            cTall = cT + "L" * nS
            cz = np.zeros(ne)
            cz[-1] = -1.0  # maximise z
            st, x, val = solve_arrays(cz, np.concatenate([l, [-1e9]]), np.concatenate([u, [1e9]]), Aall, ball, cTall)
            if st == "optimal" and abs(val - wr) > 10 * tolr:
                V.append(viol("c17.robust_exact", "worst case of the robust solution %.8f, max-min optimum over the samples %.8f" % (wr, val), tags, ctag))
    res["nontrivial"] = bool(max(Vk) - min(Vk) > 1e-6)
    res["outcome"] = "slp=%.3f" % V_slp
    res["fingerprint"] = res["outcome"]
    if V_slp < mean_ws - tol:
        res["counters"]["strict_upper"] = 1
    return res
