"""C02 - assembled LP == textbook formulation (reference equivalence).

E1 enumeration of portfolios over the asset classes the property lists; each scenario is
translated and solved by the real code and, independently, by R2 (ref/lp.py, HiGHS).
Oracles: (1) both accept / both reject, (2) equal optimal value, (3) plug-in: the EAO
dispatch, pinned into R2, is feasible there and has EAO's value.
"""
import numpy as np

from mc import scenario as S
from mc.explore import chash
from ref import lp as R2
from .common import viol, short_exc, merge_cases, family, ImplRun, close

PROPERTY = "C02"
RULE = ("E1: all portfolios of contracts (spread, time-varying caps, takes), transports (efficiency, costs, takes), "
        "storages (efficiency, costs, inflow, levels, two nodes), multi-commodity contracts with <= K deviations "
        "from the baseline, over the grid menu and the free price pairs / base networks; distinct = canonical "
        "scenario; non-trivial = both sides optimal and the optimum has non-zero dispatch")
ASSUMPTIONS = ["R2 textbook LP (ref/lp.py) written from the docstrings, solved by scipy/HiGHS",
               "values compared with rel 1e-6; plug-in pins flows within 1e-7",
               "extra costs / transport costs >= 0 (a negative |f| cost is not an LP)",
               "parameter values restricted to the menus of mc/scenario.py"]
EXPLANATION = "bounded exhaustive scenario enumeration against an independent reference LP with plug-in oracle"
MIN_NONTRIVIAL_FRACTION = 0.5
MAX_S = {"quick": 900, "thorough": 7200}

FEATS = dict(
    grids=["4x6h", "5xh", "3xd_spring", "12h_partial", "3xMS", "4x6h_d", "4x6h_min", "4x6h_cet", "7xh_autumn"],
    price_pairs=[S.PRICE_PAIRS[0], S.PRICE_PAIRS[3]],
    bases=["one", "two"],
    extras=["mc", "dem"],
    caps=1, extra_costs=1, wacc=1, window=1, takes=1,
    sto_eff=[1.0, 0.9, 1.25], sto_caps=1, sto_costs=1, sto_inflow=1, sto_levels=1, sto_two_nodes=1, sto_size0=1,
    tr_dir=1, tr_eff=1, tr_costs=1, tr_takes=1, mc_factors=1,
)


def build_cases(tier):
    if tier == "quick":
        K = 2
        feats = dict(FEATS)
    else:
        K = 3
        feats = dict(FEATS, price_pairs=S.PRICE_PAIRS)
    cases, stats = merge_cases(family("main", lambda ch: S.gen_portfolio(ch, feats), K))
    stats["bound"] = dict(K=K)
    return cases, stats


def run_case(case):
    scn = case["scenario"]
    tags = S.feature_tags(scn)
    res = dict(status="ok", violations=[], counters={})
    # reference
    try:
        ref = R2.RefModel(scn)
        rst, rval = ref.optimum()
    except R2.Unsupported as e:
        rst, rval, ref = "unsupported", None, None
        res["counters"]["ref_unsupported"] = 1
    run = ImplRun(scn, solver="SCIPY")
    res["fingerprint"] = "%s|%s|%s" % (run.status, None if run.value is None else round(run.value, 6), rst)
    res["outcome"] = "%s/%s" % (run.status, rst)
    if rst == "unsupported":
        if run.status == "optimal":
            res["counters"]["impl_accepts_unsupported"] = 1
        res["status"] = "skip"
        return res
    if run.status == "exception":
        if run.stage == "extract_output":
            res["counters"]["impl_output_error"] = 1
            res["status"] = "skip"
            return res
        res["counters"]["impl_error@" + str(run.site)] = 1
        if rst == "optimal":
            res["violations"].append(viol("c02.impl_rejects", "EAO raises %s at %s on a scenario the textbook model solves (value %.6f)"
                                          % (run.error, run.site, rval), tags + ["site:" + str(run.site)], ["site:" + str(run.site)]))
        return res
    if run.status == "inaccurate":
        res["status"] = "skip"
        return res
    if (run.status == "optimal") != (rst == "optimal"):
        res["violations"].append(viol("c02.status", "EAO status %s, reference status %s" % (run.status, rst), tags, [run.status, rst]))
        return res
    if rst != "optimal":
        res["counters"]["both_infeasible"] = 1
        return res
    if not close(run.value, rval):
        res["violations"].append(viol("c02.value", "optimal value EAO %.8f vs textbook %.8f" % (run.value, rval), tags,
                                      [t for t in tags if t.startswith("param:")][:3]))
    tab, nodes = run.table()
    pst, pval = ref.plug_in(tab)
    if pst != "optimal":
        res["violations"].append(viol("c02.plugin_infeasible", "EAO's dispatch is not feasible for the textbook model (%s)" % pst, tags,
                                      [t for t in tags if t.startswith("param:")][:3]))
    elif not close(pval, run.value, abs_=1e-7 + ref.pin_slack):
        res["violations"].append(viol("c02.plugin_value", "EAO's dispatch is worth %.8f in the textbook model, EAO reports %.8f" % (pval, run.value), tags,
                                      [t for t in tags if t.startswith("param:")][:3]))
    nz = sum(float(np.abs(v).sum()) for v in tab.values())
    res["nontrivial"] = bool(nz > 1e-6)
    return res
