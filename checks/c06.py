"""C06 - plant / CHP unit commitment.

Part A (E3 + R4): for every parameter tuple (min runtime, min downtime, initial state, start
variables present or not) the stand-alone plant problem is built by the real code and ALL
2^T on/off words are pinned (intersected with the problem's own bounds) and decided by a
HiGHS feasibility MILP on the problem's arrays; oracle: feasible <=> the automaton accepts.

Part B (E1 + R4): plant / CHP in a small portfolio, menu deviations x price words; oracle 1:
predicates of the property on the returned optimum; oracle 2 (exactness): EAO's optimal value
equals the maximum over all automaton-accepted words of the pattern LP (R2 with a fixed word).
"""
import itertools
import numpy as np

from mc import scenario as S
from mc.explore import chash
from ref.grid import Grid
from ref import lp as R2
from ref import uc
from .common import viol, merge_cases, family, ImplRun, close, short_exc, exc_site, solve_arrays, bool_vars

PROPERTY = "C06"
RULE = ("Part A: product of min runtime x min downtime (0..3 and 6 steps, i.e. also longer than the horizon) x 6 initial states x {no start costs, start costs} on an "
        "hourly grid (T=5; thorough also T=6 and a 30min grid where durations in hours differ from steps) x ALL 2^T on/off "
        "words, each word one pinned-feasibility execution of the real formulation. Part B: E1 over the plant/CHP menu "
        "(capacities, ramp, last dispatch, runtime/downtime, initial state, start/running costs, heat share, conversion, "
        "fuel efficiency, consumption if on, start fuel) with <= K deviations x free price words over {1,9}^T. "
        "distinct = canonical case; non-trivial (A) = tuple with both accepted and rejected words or R,D<=1, "
        "(B) = optimal with the unit on in some but not all steps or dispatching")
ASSUMPTIONS = ["R4 automaton (ref/uc.py) is the reference for admissible on/off words; durations are rounded up to whole steps as documented",
               "HiGHS MILP decides feasibility of a pinned word on EAO's own arrays (bounds intersected, never overwritten)",
               "pattern LP (ref/lp.py:_plant) for the continuous part; wacc = 0; no start/shutdown ramp profiles in this round",
               "first-step ramp is checked for declared-running units and for off units with last_dispatch = 0"]
EXPLANATION = "exhaustive word enumeration against an automaton + bounded scenario enumeration against pattern LPs"
MIN_NONTRIVIAL_FRACTION = 0.3
MAX_S = {"quick": 900, "thorough": 7200}

INITIALS = ["off_long", "off1", "off2", "on1", "on2", "on_long"]


def initial_kwargs(ini, step_h):
    """durations in hours for the declared initial state (step_h = step length in hours)"""
    return {"off_long": dict(time_already_off=10 * step_h), "off1": dict(time_already_off=1 * step_h),
            "off2": dict(time_already_off=2 * step_h), "on1": dict(time_already_running=1 * step_h),
            "on2": dict(time_already_running=2 * step_h), "on_long": dict(time_already_running=10 * step_h)}[ini]


# ------------------------------------------------------------------------------ part A
def partA_cases(tier):
    out = []
    grids = [("5xh", 1.0)] if tier == "quick" else [("5xh", 1.0), ("6xh", 1.0), ("6x30min", 0.5)]
    RD = [0, 1, 2, 3, 6] if tier == "quick" else [0, 1, 2, 3, 5, 6, 8]   # incl. durations that exceed the remaining horizon
    for (gname, step_h), R, D, ini, sc in itertools.product(grids, RD, RD, INITIALS, [0.0, 7.0]):
        c = dict(kind="A", grid=gname, step_h=step_h, R=R, D=D, initial=ini, start_costs=sc)
        c["key"] = chash(c)
        out.append(c)
    return out


GRID_A = {"5xh": S.GRIDS["5xh"], "6xh": dict(S.GRIDS["5xh"], end="2021-01-01T06:00"), "6x30min": S.GRIDS["6x30min"]}


def run_partA(case):
    from mc import impl
    res = dict(status="ok", violations=[], counters={})
    gj = GRID_A[case["grid"]]
    g = Grid.from_json(gj)
    T = g.T
    step_h = case["step_h"]
    a = dict(type="Plant", name="pl", nodes=["n1"], price="p", min_cap=1.0, max_cap=10.0,
             min_runtime=case["R"] * step_h, min_downtime=case["D"] * step_h)
    a.update(initial_kwargs(case["initial"], step_h))
    if case["start_costs"]:
        a["start_costs"] = case["start_costs"]
    tags = ["partA", "initial:" + case["initial"], "R=%d" % case["R"], "D=%d" % case["D"], "grid:" + case["grid"]]
    scn = dict(grid=gj, prices={"p": [3.0] * T}, assets=[a])
    try:
        nodes = {}
        obj = impl.build_asset(a, nodes)
        tg = impl.build_grid(gj)
        op = obj.setup_optim_problem({"p": np.array([3.0] * T)}, tg)
    except AssertionError as e:
        res.update(status="skip", outcome="constructor_rejects", validated=False)
        return res
    except Exception as e:
        res.update(status="skip", outcome="raises:" + exc_site(), validated=False)
        res["counters"]["impl_error@" + exc_site()] = 1
        return res
    m = op.mapping
    on_rows = m[m["var_name"] == "bool_on"]
    on_rows = on_rows[~on_rows.index.duplicated(keep="first")].sort_values("time_step")
    if len(on_rows) != T:
        # without on-variables every pattern is trivially a matter of dispatch only
        res.update(status="skip", outcome="no_on_variables", validated=False)
        return res
    on_idx = [int(i) for i in on_rows.index.values]
    arr = impl.problem_arrays(op)
    integ = bool_vars(op)
    init = uc.initial_state(uc.steps(a.get("time_already_running", 0), step_h), uc.steps(a.get("time_already_off", 0), step_h))
    R, D = case["R"], case["D"]
    n_acc = n_rej = 0
    for w in itertools.product((0, 1), repeat=T):
        l, u = arr["l"].copy(), arr["u"].copy()
        for k, i in enumerate(on_idx):
            l[i] = max(l[i], float(w[k]))
            u[i] = min(u[i], float(w[k]))
        st, x, val = solve_arrays(arr["c"], l, u, arr["A"], arr["b"], arr["cType"], integ, feasibility_only=True)
        feas = st == "optimal"
        acc = uc.accepts(w, R, D, init)
        n_acc += acc
        n_rej += (not acc)
        if feas != acc:
            kind = "admits_forbidden" if feas else "excludes_admissible"
            res["violations"].append(viol("c06.language", "R=%d D=%d initial=%s start_costs=%s: word %s is %s by the formulation but %s by the automaton"
                                          % (R, D, case["initial"], case["start_costs"], "".join(map(str, w)),
                                             "admitted" if feas else "excluded", "accepted" if acc else "rejected"),
                                          tags + [kind], [kind, "initial:" + case["initial"][:2]]))
            if len(res["violations"]) >= 3:
                break
    res["counters"]["words"] = 2 ** T
    res["counters"]["words_accepted"] = n_acc
    res["counters"]["words_rejected"] = n_rej
    res["nontrivial"] = True
    res["outcome"] = "acc=%d" % n_acc
    res["fingerprint"] = "%d/%d" % (n_acc, n_rej)
    return res


# ------------------------------------------------------------------------------ part B
def price_words(T, tier):
    allw = [list(w) for w in itertools.product([1.0, 9.0], repeat=T)]
    if tier == "thorough":
        return allw
    return [w for i, w in enumerate(allw) if i % 4 == 1]


def make_genB(tier):
    def gen(ch):
        gname = ch.pick("grid", ["5xh", "4x6h", "6x30min"])
        gj = dict(S.GRIDS[gname])
        g = Grid.from_json(gj)
        T = g.T
        step_h = g.dt[0] * S.MTU_H[g.mtu]
        words = price_words(min(T, 5), tier)
        w = ch.free("pword", words)
        prices = dict(p=[w[i % len(w)] for i in range(T)], fuelc=[4.0] * T, gasp=[2.0] * T, heatp=[6.0] * T)
        kind = ch.free("kind", ["plant", "plantfuel", "chp", "chpfuel"])
        assets = [dict(type="SimpleContract", name="mkt", nodes=["n1"], price="p", min_cap=-15.0, max_cap=15.0)]
        a = dict(name="pl", min_cap=1.0, max_cap=10.0)
        if kind == "plant":
            a.update(type="Plant", nodes=["n1"], price="fuelc")
        elif kind == "plantfuel":
            a.update(type="Plant", nodes=["n1", "nf"])
            assets.append(dict(type="SimpleContract", name="gas", nodes=["nf"], price="gasp", min_cap=0.0, max_cap=100.0))
        elif kind == "chp":
            a.update(type="CHPAsset", nodes=["n1", "nh"], price="fuelc")
            assets.append(dict(type="SimpleContract", name="heat", nodes=["nh"], price="heatp", min_cap=-4.0, max_cap=0.0))
        else:
            a.update(type="CHPAsset", nodes=["n1", "nh", "nf"])
            assets.append(dict(type="SimpleContract", name="heat", nodes=["nh"], price="heatp", min_cap=-4.0, max_cap=0.0))
            assets.append(dict(type="SimpleContract", name="gas", nodes=["nf"], price="gasp", min_cap=0.0, max_cap=100.0))
        mc = ch.pick("pl.min_cap", [1.0, 0.0, 3.0])
        a["min_cap"] = mc
        ini = ch.pick("pl.initial", INITIALS)
        a.update(initial_kwargs(ini, step_h))
        rp = ch.pick("pl.ramp", [None, 2.0, 4.0])
        if rp is not None:
            a["ramp"] = rp
        if ini.startswith("on"):
            ld = ch.pick("pl.last_dispatch", [0.0, 5.0])   # 0.0 with a running unit: it was at zero output
            a["last_dispatch"] = ld if ld else max(mc, 1.0)
        R = ch.pick("pl.min_runtime", [0, 2, 3])
        if R:
            a["min_runtime"] = R * step_h
        D = ch.pick("pl.min_downtime", [0, 2, 3])
        if D:
            a["min_downtime"] = D * step_h
        sc = ch.pick("pl.start_costs", [0.0, 7.0, "dict_partial"])
        if sc == "dict_partial":   # start costs per step, zero in the second half of the horizon
            a["start_costs"] = S.interval_dict(g, [((("gp", 0), ("gp", max(1, T // 2))), 7.0)])
        elif sc:
            a["start_costs"] = sc
        rc = ch.pick("pl.running_costs", [0.0, 0.5])
        if rc:
            if mc == 0.0:
                return None  # with min_cap = 0 "on" is not observable (EAO warns about it): costs when on are undefined
            a["running_costs"] = rc
        if a["type"] == "CHPAsset":
            hc = ch.pick("heat.cap", [4.0, 8.0])   # 8: more heat than max_cap * conversion factor
            for o in assets:
                if o["name"] == "heat":
                    o["min_cap"] = -hc
            sh = ch.pick("pl.max_share_heat", [None, 0.5])
            if sh is not None:
                a["max_share_heat"] = sh
            cf = ch.pick("pl.conversion", [1.0, 0.5])
            if cf != 1.0:
                a["conversion_factor_power_heat"] = cf
        if kind in ("plantfuel", "chpfuel"):
            fe = ch.pick("pl.fuel_efficiency", [0.5, 1.0])
            a["fuel_efficiency"] = fe
            ci = ch.pick("pl.consumption_if_on", [0.0, 0.4])
            if ci:
                if mc == 0.0:
                    return None
                a["consumption_if_on"] = ci
            sf = ch.pick("pl.start_fuel", [0.0, 1.5])
            if sf:
                a["start_fuel"] = sf
        if ch.pick("pl.pos", ["last", "first"]) == "first":
            assets.insert(0, a)
        else:
            assets.append(a)
        scn = S.finish(gj, assets, prices)
        scn["meta"] = dict(initial=ini, R=R, D=D, step_h=step_h, kind=kind)
        return scn
    return gen


def make_genC(tier):
    """plant with start / shutdown ramp profiles on an hourly grid (one step = one main time unit)"""
    def gen(ch):
        gsel = ch.pick("grid", ["6xh", "6x30min"])
        gj = dict(GRID_A[gsel])
        g = Grid.from_json(gj)
        T = g.T
        step_h = 1.0 if gsel == "6xh" else 0.5
        words = price_words(5, tier)
        w = ch.free("pword", words)
        prices = dict(p=[w[i % len(w)] for i in range(T)], fuelc=[4.0] * T)
        a = dict(type="Plant", name="pl", nodes=["n1"], price="fuelc", min_cap=2.0, max_cap=8.0)
        if gsel != "6xh":   # half-hourly steps, main time unit h: the profiles are given per grid step (ramp_freq = grid frequency), as rates per hour
            a["ramp_freq"] = "30min"
        kindC = ch.free("kind", ["plant", "chp"])
        heat_assets = []
        if kindC == "chp":   # the profiles bound the virtual output power + factor x heat
            a.update(type="CHPAsset", nodes=["n1", "nh"])
            prices["heatp"] = [6.0, 1.0, 6.0, 1.0, 6.0, 6.0][:T]
            heat_assets = [dict(type="SimpleContract", name="heat", nodes=["nh"], price="heatp", min_cap=-3.0, max_cap=0.0)]
            cf = ch.pick("pl.conversion", [0.5, 1.0])
            if cf != 1.0:
                a["conversion_factor_power_heat"] = cf
            sh = ch.pick("pl.max_share_heat", [None, 0.5])
            if sh is not None:
                a["max_share_heat"] = sh
        prof = ch.free("profiles", ["shutdown1", "start1", "both1", "shutdown2", "start2", "both_wide", "start3"])
        if prof in ("start1", "both1"):
            a.update(start_ramp_lower_bounds=[3.0], start_ramp_upper_bounds=[3.0])
        if prof in ("shutdown1", "both1"):
            a.update(shutdown_ramp_lower_bounds=[5.0], shutdown_ramp_upper_bounds=[5.0])
        if prof == "start2":
            a.update(start_ramp_lower_bounds=[1.0, 3.0], start_ramp_upper_bounds=[2.0, 5.0])
        if prof == "start3":   # a start ramp of three steps, steeper than the plain ramp limit (a unit one step into it is still two steps inside)
            a.update(start_ramp_lower_bounds=[1.0, 3.0, 6.0], start_ramp_upper_bounds=[1.0, 4.0, 7.0])
        if prof == "shutdown2":
            a.update(shutdown_ramp_lower_bounds=[5.0, 3.0], shutdown_ramp_upper_bounds=[6.0, 4.0])
        if prof == "both_wide":
            a.update(start_ramp_lower_bounds=[1.0], start_ramp_upper_bounds=[4.0], shutdown_ramp_lower_bounds=[1.0], shutdown_ramp_upper_bounds=[6.0])
        pform = ch.pick("profile_form", ["lists", "arrays", "lower_only"])
        if pform == "arrays":       # the documented Sequence may be a float array
            a["_profile_arrays"] = True
        elif pform == "lower_only":  # upper bounds default to the lower bounds
            for k_ in ("start_ramp", "shutdown_ramp"):
                if a.get(k_ + "_lower_bounds") is not None and a.get(k_ + "_lower_bounds") == a.get(k_ + "_upper_bounds"):
                    a.pop(k_ + "_upper_bounds")
                    a["_profile_arrays"] = True
        mc = ch.pick("pl.max_cap", ["const", "derated", "rising"])
        if mc == "derated":    # capacity drops while the unit may be inside a profile
            a["max_cap"] = S.interval_dict(g, [((("gp", 0), ("gp", 3)), 8.0), ((("gp", 3), ("gp", T)), 4.0)])
        elif mc == "rising":
            a["max_cap"] = S.interval_dict(g, [((("gp", 0), ("gp", 2)), 5.0), ((("gp", 2), ("gp", T)), 8.0)])
        rp = ch.pick("pl.ramp", [2.0, None, 3.0])
        if rp is not None:
            a["ramp"] = rp
        ini = ch.pick("pl.initial", ["on_long", "off_long", "on1", "off1"])
        a.update(initial_kwargs(ini, step_h))
        if ini.startswith("on"):
            a["last_dispatch"] = ch.pick("pl.last_dispatch", [6.0, 3.0])
        R = ch.pick("pl.min_runtime", [0, 2])
        if R:
            a["min_runtime"] = float(R) * step_h
        sc = ch.pick("pl.start_costs", [0.0, 7.0])
        if sc:
            a["start_costs"] = sc
        assets = [dict(type="SimpleContract", name="mkt", nodes=["n1"], price="p", min_cap=-15.0, max_cap=15.0)] + heat_assets + [a]
        scn = S.finish(gj, assets, prices)
        scn["meta"] = dict(initial=ini, R=R, kind="profiles", profiles=prof, unit=kindC, step_h=step_h)
        return scn
    return gen


def run_partC(case):
    """bracket oracle: best admissible pattern under the strict reading <= EAO <= under the lenient reading"""
    scn = case["scenario"]
    meta = scn["meta"]
    a = [x for x in scn["assets"] if x["name"] == "pl"][0]
    tags = S.feature_tags(scn) + ["partC", "initial:" + meta["initial"], "profiles:" + meta["profiles"]]
    ctag = ["profiles:" + meta["profiles"], "initial:" + meta["initial"][:2], "unit:" + meta.get("unit", "plant")] + (["derated"] if isinstance(a["max_cap"], dict) else [])
    res = dict(status="ok", violations=[], counters={})
    V = res["violations"]
    run = ImplRun(scn, solver="SCIPY", want_output=False)
    res["fingerprint"] = "%s|%s" % (run.status, None if run.value is None else round(run.value, 5))
    res["outcome"] = "C:" + run.status
    g = Grid.from_json(scn["grid"])
    nS = len(a.get("start_ramp_lower_bounds") or [])
    nD = len(a.get("shutdown_ramp_lower_bounds") or [])
    sh = meta.get("step_h", 1.0)
    init = uc.initial_state(uc.steps(a.get("time_already_running", 0), sh), uc.steps(a.get("time_already_off", 0), sh))
    R = uc.steps(a.get("min_runtime", 0), sh) + nS + nD
    best = {}
    for reading in ("strict", "lenient"):
        b = None
        for w in uc.language(g.T, R, 0, init):
            try:
                ref = R2.RefModel(scn, options=dict(words={"pl": w}, profile_reading=reading))
            except R2.Unsupported:
                continue
            st, val = ref.optimum()
            if st == "optimal" and (b is None or val > b):
                b = val
        best[reading] = b
    if run.status == "exception":
        res.update(status="skip", validated=False)
        res["counters"]["impl_error@%s" % run.site] = 1
        return res
    if run.status != "optimal":
        if best["strict"] is not None:
            V.append(viol("c06.profile_exactness", "EAO reports %s, an admissible pattern is feasible under the strict reading (%.6f)" % (run.status, best["strict"]), tags, ctag + ["infeasible"]))
        else:
            res.update(status="skip", validated=False)
        return res
    tol = 1e-6 * (1 + abs(run.value))
    if best["lenient"] is None or run.value > best["lenient"] + tol:
        V.append(viol("c06.profile_exactness", "EAO's optimum %.6f exceeds the best admissible pattern even under the lenient reading of the profiles (%s): "
                      "something inadmissible is admitted" % (run.value, best["lenient"]), tags, ctag + ["higher"]))
    elif best["strict"] is not None and run.value < best["strict"] - tol:
        V.append(viol("c06.profile_exactness", "EAO's optimum %.6f is below the best admissible pattern under the strict reading (%.6f): an admissible "
                      "schedule is excluded or overpriced" % (run.value, best["strict"]), tags, ctag + ["lower"]))
    res["nontrivial"] = True
    if best["strict"] is not None and best["lenient"] is not None and best["lenient"] - best["strict"] > tol:
        res["counters"]["bracket_open"] = 1
    return res


def build_cases(tier):
    K = 2 if tier == "quick" else 3
    A = partA_cases(tier)
    C, stC = merge_cases(family("partC", make_genC(tier), K))
    for c in C:
        c["kind"] = "C"
    B, stats = merge_cases(family("partB", make_genB(tier), K))
    for c in B:
        c["kind"] = "B"
    # E3: minimum runtime / downtime LONGER than the whole horizon (rolling horizon with a long-running unit)
    L = []
    gj = dict(S.GRIDS["5xh"])
    for w in price_words(5, tier):
        for which, hours in itertools.product(("min_runtime", "min_downtime"), (6, 7, 8)):
            for ini in INITIALS:
                for sc in (0.0, 7.0):
                    a = dict(type="Plant", name="pl", nodes=["n1"], price="fuelc", min_cap=1.0, max_cap=10.0)
                    a[which] = float(hours)
                    a.update(initial_kwargs(ini, 1.0))
                    if ini.startswith("on"):
                        a["last_dispatch"] = 5.0
                    if sc:
                        a["start_costs"] = sc
                    scn = dict(grid=gj, prices=dict(p=list(w), fuelc=[4.0] * 5), mode="mono",
                               assets=[dict(type="SimpleContract", name="mkt", nodes=["n1"], price="p", min_cap=-15.0, max_cap=15.0), a],
                               meta=dict(initial=ini, R=hours if which == "min_runtime" else 0, D=hours if which == "min_downtime" else 0, step_h=1.0, kind="plant"))
                    c = dict(kind="B", family="long_durations", scenario=scn, deviations=[[which, hours], ["initial", ini]], choices=[], cost=0)
                    c["key"] = chash(scn)
                    L.append(c)
    Wc, stW = merge_cases(family("partW", make_genW(tier), K))
    for c in Wc:
        c["kind"] = "W"
    B = B + C + L + Wc
    stats["window_cases"] = len(Wc)
    stats["long_duration_cases"] = len(L)
    stats["transitions"] += stC["transitions"]
    stats["partC_cases"] = len(C)
    stats["partA_tuples"] = len(A)
    stats["states"] = len(A) + len(B)
    stats["transitions"] = stats["transitions"] + len(A) * (32 if tier == "quick" else 48)
    stats["bound"] = dict(K=K, partA_T=[5] if tier == "quick" else [5, 6, 6], price_words=len(price_words(5, tier)))
    return A + B, stats


def run_case(case):
    if case.get("kind") == "A":
        return run_partA(case)
    if case.get("kind") == "C":
        return run_partC(case)
    if case.get("kind") == "W":
        return run_partW(case)
    return run_partB(case)


def run_partB(case):
    scn = case["scenario"]
    meta = scn["meta"]
    tags = S.feature_tags(scn) + ["partB", "initial:" + meta["initial"]]
    res = dict(status="ok", violations=[], counters={})
    V = res["violations"]
    run = ImplRun(scn, solver="SCIPY")
    res["fingerprint"] = "%s|%s" % (run.status, None if run.value is None else round(run.value, 5))
    if run.status != "optimal":
        res["status"] = "skip"
        res["validated"] = False
        res["outcome"] = run.status
        res["counters"]["impl_%s@%s" % (run.status, run.site)] = 1
        # infeasibility must be confirmed by the reference (no admissible word has a feasible pattern LP)
        if run.status == "not successful":
            best = _best_pattern(scn, meta)[0]
            if best is not None:
                res["status"] = "ok"
                V.append(viol("c06.exactness", "EAO reports infeasible, but an admissible pattern is feasible (value %.6f)" % best, tags, ["infeasible"]))
        elif run.status == "exception":
            best = _best_pattern(scn, meta)[0]
            if best is not None:
                res["status"] = "ok"
                V.append(viol("c06.raises", "EAO raises %s at %s (stage %s), an admissible pattern is feasible (value %.6f)" % (run.error, run.site, run.stage, best),
                              tags + ["site:%s" % run.site], ["raises", "site:%s" % run.site]))
        return res
    g = Grid.from_json(scn["grid"])
    a = [x for x in scn["assets"] if x["name"] == "pl"][0]
    T = g.T
    step = g.dt[0]
    m = run.op.mapping
    x = np.asarray(run.res.x, float)
    tab, nodes = run.table()
    is_chp = a["type"] == "CHPAsset"
    power = tab[("pl", a["nodes"][0])]
    heat = tab[("pl", a["nodes"][1])] if is_chp else np.zeros(T)
    conv = float(a.get("conversion_factor_power_heat", 1.0))
    v = power + conv * heat

    def series(var):
        rows = m[(m["asset"] == "pl") & (m["var_name"] == var)]
        rows = rows[~rows.index.duplicated(keep="first")]
        if len(rows) == 0:
            return None
        arr = np.zeros(T)
        for i, t in zip(rows.index.values, rows["time_step"].values):
            arr[int(t)] = x[int(i)]
        return arr
    on = series("bool_on")
    start = series("bool_start")
    lo, hi = float(a["min_cap"]) * step, float(a["max_cap"]) * step
    tol = 1e-6 * (1 + hi)
    ptags = [t.split(".")[-1] for t in tags if t.startswith("param:Plant.") or t.startswith("param:CHPAsset.")]
    ptags = [t for t in ptags if t in ("ramp", "last_dispatch", "min_runtime", "min_downtime", "start_costs", "start_fuel",
                                        "consumption_if_on", "max_share_heat", "conversion_factor_power_heat", "fuel_efficiency")]
    init = uc.initial_state(uc.steps(a.get("time_already_running", 0), step), uc.steps(a.get("time_already_off", 0), step))
    if on is not None:
        if np.abs(on - np.round(on)).max() > 1e-6:
            V.append(viol("c06.on_integral", "on-variables are not 0/1: %s" % on, tags, ptags))
        word = [int(round(z)) for z in on]
        for t in range(T):
            if word[t] == 0 and abs(v[t]) > tol:
                V.append(viol("c06.off_output", "step %d: unit off but virtual output %.6f" % (t, v[t]), tags, ptags))
                break
            if word[t] == 1 and not (lo - tol <= v[t] <= hi + tol):
                V.append(viol("c06.capacity", "step %d: unit on, virtual output %.6f outside [%.3f, %.3f]" % (t, v[t], lo, hi), tags, ptags))
                break
        R = uc.steps(a.get("min_runtime", 0), step)
        D = uc.steps(a.get("min_downtime", 0), step)
        if not uc.accepts(word, R, D, init):
            V.append(viol("c06.pattern", "optimal on/off pattern %s violates min runtime %d / min downtime %d steps from initial state %s"
                          % ("".join(map(str, word)), R, D, init), tags, ptags))
        true_starts = uc.starts(word, init)
        has_start_cost = bool(a.get("start_costs")) or bool(a.get("start_fuel"))
        if start is not None and has_start_cost:
            flagged = [t for t in range(T) if start[t] > 0.5]
            if isinstance(a.get("start_costs"), dict) and not a.get("start_fuel"):
                # a start flag in a step whose start costs are zero is free: only every true start has to be flagged there
                free = [t for t in range(T) if t >= max(1, T // 2)]
                flagged = [t for t in flagged if t not in free or t in true_starts]
            if flagged != true_starts:
                V.append(viol("c06.start_flag", "starts flagged at %s, off->on transitions at %s (pattern %s, initial %s)"
                              % (flagged, true_starts, "".join(map(str, word)), init), tags, ptags))
    else:
        word = None
        if (v < -tol).any() or (v > hi + tol).any():
            V.append(viol("c06.capacity", "virtual output outside [0, max]: %s" % v, tags, ptags))
    if a.get("ramp") is not None:
        rs = float(a["ramp"]) * step
        for t in range(1, T):
            if abs(v[t] - v[t - 1]) > rs + tol:
                V.append(viol("c06.ramp", "step %d: output changes by %.6f > ramp %.6f" % (t, v[t] - v[t - 1], rs), tags, ptags))
                break
        last = float(a.get("last_dispatch", 0.0)) * step
        if abs(v[0] - last) > rs + tol:
            V.append(viol("c06.first_ramp", "first step: output %.6f, last dispatch %.6f, ramp %.6f (initial %s)" % (v[0], last, rs, init),
                          tags + ["on_vars" if on is not None else "no_on_vars"], ptags + ["initial:" + meta["initial"][:2], "on_vars" if on is not None else "no_on_vars"]))
    if is_chp and a.get("max_share_heat") is not None:
        if (heat > float(a["max_share_heat"]) * power + tol).any():
            V.append(viol("c06.heat_share", "heat %s exceeds share %.2f of power %s" % (heat, a["max_share_heat"], power), tags, ptags))
    if (heat < -tol).any() or (power < -tol).any():
        V.append(viol("c06.capacity", "negative power or heat", tags, ptags))
    # fuel
    nf = None
    if a["type"] == "Plant" and len(a["nodes"]) == 2:
        nf = a["nodes"][1]
    if is_chp and len(a["nodes"]) == 3:
        nf = a["nodes"][2]
    if nf is not None:
        fuel = tab[("pl", nf)]
        eff = float(a.get("fuel_efficiency", 1.0))
        cons = float(a.get("consumption_if_on", 0.0)) * step
        sf = float(a.get("start_fuel", 0.0))
        w_ = word if word is not None else [0] * T
        ts_ = set(uc.starts(w_, init)) if word is not None else set()
        want = np.array([-(v[t] / eff + cons * w_[t] + (sf if t in ts_ else 0.0)) for t in range(T)])
        if np.abs(fuel - want).max() > 10 * tol:
            t = int(np.argmax(np.abs(fuel - want)))
            V.append(viol("c06.fuel", "step %d: fuel node flow %.6f, expected -(output/eff + consumption + start fuel) = %.6f" % (t, fuel[t], want[t]), tags, ptags))
    # exactness
    best, n_acc, n_feas = _best_pattern(scn, meta)
    res["counters"]["pattern_lps"] = n_acc
    if best is None:
        V.append(viol("c06.exactness", "EAO finds value %.6f but no admissible pattern has a feasible pattern LP" % run.value, tags, ptags))
    elif not close(run.value, best, rel=1e-6, abs_=1e-6):
        V.append(viol("c06.exactness", "EAO's optimum %.6f differs from the best admissible pattern %.6f (%s)"
                      % (run.value, best, "EAO admits something inadmissible or prices it wrongly" if run.value > best else "EAO excludes or overprices an admissible pattern"),
                      tags + ["on_vars" if on is not None else "no_on_vars"], ptags + ["higher" if run.value > best else "lower", "initial:" + meta["initial"][:2]]))
    res["nontrivial"] = bool(np.abs(v).sum() > tol)
    res["outcome"] = "pat:%s" % ("".join(map(str, word)) if word is not None else "-")
    return res


def make_genW(tier):
    """a unit that exists in part of the horizon only (commissioned late, decommissioned early, single step, outside)"""
    def gen(ch):
        gname = ch.pick("grid", ["5xh", "4x6h"])
        gj = dict(S.GRIDS[gname])
        g = Grid.from_json(gj)
        T = g.T
        step_h = g.dt[0] * S.MTU_H[g.mtu]
        w = ch.free("pword", price_words(min(T, 5), tier)[:6])
        prices = dict(p=[w[i % len(w)] for i in range(T)], fuelc=[4.0] * T, gasp=[2.0] * T, heatp=[6.0] * T)
        kind = ch.free("kind", ["plant", "chp", "chpml0", "chpfuel"])
        assets = [dict(type="SimpleContract", name="mkt", nodes=["n1"], price="p", min_cap=-15.0, max_cap=15.0)]
        a = dict(name="pl", min_cap=1.0, max_cap=10.0)
        if kind == "plant":
            a.update(type="Plant", nodes=["n1"], price="fuelc")
        else:
            assets.append(dict(type="SimpleContract", name="heat", nodes=["nh"], price="heatp", min_cap=-4.0, max_cap=0.0))
            if kind == "chpfuel":
                a.update(type="CHPAsset", nodes=["n1", "nh", "nf"], fuel_efficiency=0.5, consumption_if_on=0.4, start_fuel=1.5)
                assets.append(dict(type="SimpleContract", name="gas", nodes=["nf"], price="gasp", min_cap=0.0, max_cap=100.0))
            else:
                a.update(type="CHPAsset", nodes=["n1", "nh"], price="fuelc")
            if kind == "chpml0":   # the variant with minimum-load costs, with costs 0: behaves like the plain CHP
                a.update(type="CHPAsset_with_min_load_costs", min_load_threshhold=4.0, min_load_costs=0.0)
        win = ch.free("pl.window", S.window_menu(T)[1:])
        s_, e_ = S.resolve_window(g, win)
        if s_:
            a["start"] = s_
        if e_:
            a["end"] = e_
        ini = ch.pick("pl.initial", ["off_long", "on1", "on_long", "off1"])
        a.update(initial_kwargs(ini, step_h))
        if ini.startswith("on"):
            a["last_dispatch"] = 5.0
        R = ch.pick("pl.min_runtime", [0, 2, 4])    # 4: longer than the short life times of the window menu
        if R:
            a["min_runtime"] = R * step_h
        D = ch.pick("pl.min_downtime", [0, 2, 4])
        if D:
            a["min_downtime"] = D * step_h
        sc = ch.pick("pl.start_costs", [0.0, 7.0])
        if sc:
            a["start_costs"] = sc
        rp = ch.pick("pl.ramp", [None, 3.0])
        if rp is not None:
            a["ramp"] = rp
        rc = ch.pick("pl.running_costs", [0.0, 0.5])
        if rc:
            a["running_costs"] = rc
        assets.append(a)
        scn = S.finish(gj, assets, prices)
        scn["meta"] = dict(initial=ini, R=R, D=D, step_h=step_h, kind=kind, family="window")
        return scn
    return gen


def run_partW(case):
    """value against the best admissible pattern over the unit's life time; no output outside it; no exception"""
    import copy as _copy
    scn = case["scenario"]
    meta = scn["meta"]
    tags = S.feature_tags(scn) + ["partW", "initial:" + meta["initial"], "kind:" + meta["kind"]]
    res = dict(status="ok", violations=[], counters={})
    V = res["violations"]
    ctag = ["window", "kind:" + meta["kind"]]
    ref_scn = _copy.deepcopy(scn)
    for x in ref_scn["assets"]:
        if x["type"] == "CHPAsset_with_min_load_costs":
            x["type"] = "CHPAsset"
            x.pop("min_load_threshhold")
            x.pop("min_load_costs")
    a = [x for x in ref_scn["assets"] if x["name"] == "pl"][0]
    g = Grid.from_json(scn["grid"])
    W = g.window(a.get("start"), a.get("end"), scn.get("date_tz"))
    run = ImplRun(scn, solver="SCIPY")
    res["fingerprint"] = "%s|%s" % (run.status, None if run.value is None else round(run.value, 5))
    res["outcome"] = "W:%s/%d" % (run.status, len(W))
    best, n_acc, n_feas = _best_pattern(ref_scn, meta, n=len(W))
    res["counters"]["pattern_lps"] = n_acc
    if run.status == "exception":
        V.append(viol("c06.raises", "unit with life time steps %s: EAO raises %s at %s (stage %s)%s" % (W, run.error, run.site, run.stage,
                      "" if best is None else "; an admissible pattern is feasible (value %.6f)" % best), tags + ["site:%s" % run.site], ctag + ["site:%s" % run.site]))
        return res
    if run.status != "optimal":
        if best is not None:
            V.append(viol("c06.exactness", "EAO reports %s, but an admissible pattern is feasible (value %.6f)" % (run.status, best), tags, ctag + ["infeasible"]))
        else:
            res.update(status="skip", validated=False)
        return res
    if best is None:
        V.append(viol("c06.exactness", "EAO finds value %.6f but no admissible pattern has a feasible pattern LP" % run.value, tags, ctag))
    elif not close(run.value, best, rel=1e-6, abs_=1e-6):
        V.append(viol("c06.exactness", "unit with life time steps %s: EAO's optimum %.6f differs from the best admissible pattern %.6f" % (W, run.value, best),
                      tags, ctag + ["higher" if run.value > best else "lower", "initial:" + meta["initial"][:2]]))
    tab, nodes = run.table()
    tot = 0.0
    for (nm, nd), arr in tab.items():
        if nm == "pl":
            tot += float(np.abs(arr).sum())
            out = [t for t in range(g.T) if t not in W and abs(arr[t]) > 1e-7]
            if out:
                V.append(viol("c06.off_output", "flow %.6f at node %s in step %d outside the unit's life time %s" % (arr[out[0]], nd, out[0], W), tags, ctag))
                break
    res["nontrivial"] = bool(tot > 1e-6)
    return res


def _best_pattern(scn, meta, n=None):
    a = [x for x in scn["assets"] if x["name"] == "pl"][0]
    g = Grid.from_json(scn["grid"])
    step = g.dt[0]
    init = uc.initial_state(uc.steps(a.get("time_already_running", 0), step), uc.steps(a.get("time_already_off", 0), step))
    R = uc.steps(a.get("min_runtime", 0), step)
    D = uc.steps(a.get("min_downtime", 0), step)
    best = None
    n_acc = n_feas = 0
    for w in uc.language(g.T if n is None else n, R, D, init):
        n_acc += 1
        try:
            ref = R2.RefModel(scn, options=dict(words={"pl": w}))
        except R2.Unsupported:
            continue
        st, val = ref.optimum()
        if st == "optimal":
            n_feas += 1
            if best is None or val > best:
                best = val
    return best, n_acc, n_feas
