"""Helpers shared by the check drivers (impl side)."""
import math
import traceback
import numpy as np

from mc import scenario as S
from mc.explore import explore_e1, chash


def viol(oracle, msg, tags=(), class_tags=None, **detail):
    v = dict(oracle=oracle, msg=msg, tags=sorted(set(tags)), detail=detail)
    v["class_tags"] = sorted(set(class_tags)) if class_tags is not None else []
    return v


def fnum(x, nd=9):
    """normalise a float for hashing / multiset comparison"""
    if x is None:
        return None
    try:
        x = float(x)
    except Exception:
        return str(x)
    if math.isnan(x):
        return "nan"
    if math.isinf(x):
        return "inf" if x > 0 else "-inf"
    y = round(x, nd)
    if y == 0:
        y = 0.0
    return y


def short_exc(e):
    return "%s: %s" % (type(e).__name__, str(e)[:200])


def exc_site(e=None):
    """innermost eaopack frame of the current exception (file:function), for finding ids"""
    import sys
    tb = sys.exc_info()[2]
    site = "?"
    while tb is not None:
        fn = tb.tb_frame.f_code.co_filename
        if "eaopack" in fn:
            site = "%s:%s" % (fn.split("/")[-1], tb.tb_frame.f_code.co_name)
        tb = tb.tb_next
    return site


def merge_cases(*lists):
    """merge case lists from several generators, dedup by key, keep order"""
    seen, out = set(), []
    stats = dict(states=0, transitions=0, executions=0, rejected=0, capped=False, families=[])
    for cases, st in lists:
        for c in cases:
            if c["key"] in seen:
                continue
            seen.add(c["key"])
            out.append(c)
        for k in ("transitions", "executions", "rejected"):
            stats[k] += st.get(k, 0)
        stats["capped"] = stats["capped"] or st.get("capped", False)
        stats["families"].append({k: st.get(k) for k in ("family", "bound_K", "states", "transitions", "executions")})
    stats["states"] = len(out)
    stats["explorer"] = "E1 deviation-bounded choice tree (+E3 products)"
    return out, stats


def family(name, gen, K, max_cases=None):
    cases, st = explore_e1(gen, K, max_cases=max_cases)
    for c in cases:
        c["family"] = name
    st["family"] = name
    return cases, st


# ------------------------------------------------------------------ impl pipeline
class ImplRun:
    """one execution of the real code on a scenario: setup -> optimize -> extract_output"""

    def __init__(self, scn, solver="SCIPY", want_output=True):
        from mc import impl
        self.scn = scn
        self.status = None      # 'optimal' | 'not successful' | 'inaccurate' | 'exception'
        self.error = None
        self.site = None
        self.stage = None
        self.value = None
        self.res = None
        self.out = None
        self.solver_retry = False
        try:
            self.stage = "setup"
            self.portf, self.tg, self.prices, self.op = impl.setup(scn)
            self.stage = "optimize"
            self.res = impl.solve(self.op, solver)
            if isinstance(self.res, str) and self.res == "not successful" and solver == "SCIPY":
                # HiGHS (as shipped with scipy) occasionally declares a feasible, degenerate problem infeasible;
                # a verdict of infeasibility is only taken when a second solver agrees
                second = impl.solve(self.op, "SCIP")
                if not isinstance(second, str):
                    self.res = second
                    self.solver_retry = True
            if isinstance(self.res, str):
                self.status = self.res
                return
            self.status = "optimal"
            self.value = float(self.res.value)
            if want_output:
                self.stage = "extract_output"
                import eaopack as eao
                self.out = eao.io.extract_output(self.portf, self.op, self.res, self.prices)
        except Exception as e:
            self.status = "exception"
            self.error = short_exc(e)
            self.site = exc_site()

    def table(self):
        """{(asset, node): array(T)} from the dispatch output, columns named by the documented rule"""
        disp = self.out["dispatch"]
        scn = self.scn
        all_nodes = []
        for a in scn["assets"]:
            for n in asset_nodes(a):
                if n not in all_nodes:
                    all_nodes.append(n)
        single = len(all_nodes) == 1
        tab = {}
        for a in scn["assets"]:
            for n in asset_nodes(a):
                col = a["name"] if single else "%s (%s)" % (a["name"], n)
                if col in disp.columns:
                    tab[(a["name"], n)] = np.asarray(disp[col].values, float)
        return tab, all_nodes


def asset_nodes(a):
    if a["type"] == "ScaledAsset":
        return asset_nodes(a["base_asset"])
    return list(a["nodes"])


def close(a, b, rel=1e-6, abs_=1e-7):
    return abs(a - b) <= abs_ + rel * max(abs(a), abs(b))


# ------------------------------------------------------------------ HiGHS on the problem's own arrays
def bool_vars(op):
    """indices of variables flagged boolean in the mapping (first row per variable decides)"""
    m = op.mapping
    if m is None or "bool" not in m.columns:
        return []
    first = m[~m.index.duplicated(keep="first")]
    b = first["bool"].fillna(False).astype(bool)
    return [int(i) for i in first.index.values[b.values]]


def solve_arrays(c, l, u, A, b, cType, integ=None, feasibility_only=False):
    """maximise -c.x subject to the problem's rows, solved by scipy/HiGHS directly.
    returns (status, x, value)"""
    from scipy.optimize import milp, LinearConstraint, Bounds
    from scipy import sparse as sp
    n = len(c)
    if n == 0:
        return "optimal", np.zeros(0), 0.0
    cons = []
    if A is not None and A.shape[0] > 0:
        A = sp.csr_matrix(A)
        lo = np.full(A.shape[0], -np.inf)
        hi = np.full(A.shape[0], np.inf)
        bb = np.asarray(b, float)
        for i, t in enumerate(cType):
            if t == "U":
                hi[i] = bb[i]
            elif t == "L":
                lo[i] = bb[i]
            elif t in ("S", "N"):
                lo[i] = hi[i] = bb[i]
            else:
                raise ValueError("row type %r" % t)
        cons = [LinearConstraint(A, lo, hi)]
    if np.any(np.asarray(l) > np.asarray(u) + 1e-12):
        return "infeasible", None, None
    integrality = np.zeros(n)
    if integ:
        integrality[list(integ)] = 1
    cost = np.zeros(n) if feasibility_only else np.asarray(c, float)
    r = milp(cost, constraints=cons, integrality=integrality, bounds=Bounds(np.asarray(l, float), np.asarray(u, float)),
             options=dict(mip_rel_gap=0.0))
    if r.status == 0:
        return "optimal", r.x, float(-(np.asarray(c, float) * r.x).sum())
    if r.status == 2:
        return "infeasible", None, None
    if r.status == 3:
        return "unbounded", None, None
    return "other:%s" % r.status, None, None
