"""C20 - order book: partial or full execution, delivered over the order's window."""
import copy
import numpy as np

from mc import scenario as S
from ref.grid import Grid, parse_instant
from ref import lp as R2
from .common import viol, merge_cases, family, ImplRun, close

PROPERTY = "C20"
RULE = ("E1: order lists of 1..3 orders, each with placement from a closed menu of 12 placements relative to the horizon "
        "(inside, whole, first/last step, straddling, before, after, between grid points, touching the ends), side and "
        "price level; full execution; companion portfolios (liquid market / tight demand / two nodes); book position "
        "(free); grids incl. a DST day and a partial last step; <= K deviations; distinct = canonical scenario; "
        "non-trivial = optimal and at least one order executed at a non-zero fraction")
ASSUMPTIONS = ["execution fractions are read from output['special'] (rows of the order book, name = order number)",
               "R2 textbook model with one execution variable per order (HiGHS, MILP for full execution)",
               "an order covers the steps whose start lies in [start, end) (documented window rule)"]
EXPLANATION = "bounded exhaustive scenario enumeration against a reference model with one variable per order"
MIN_NONTRIVIAL_FRACTION = 0.3
MAX_S = {"quick": 900, "thorough": 7200}


def placements(T):
    return [
        (("gp", 1), ("gp", T - 1)),       # inside
        (("gp", 0), ("gp", T)),           # whole horizon
        (("gp", 0), ("gp", 1)),           # first step
        (("gp", T - 1), ("gp", T)),       # last step
        (("before", 2), ("gp", 2)),       # straddling the start
        (("gp", T - 2), ("after", 2)),    # straddling the end
        (("before", 3), ("before", 1)),   # before
        (("after", 1), ("after", 3)),     # after
        (("mid", 0), ("mid", T - 2)),     # between grid points
        (("before", 1), ("after", 1)),    # covering everything
        (("before", 1), ("gp", 0)),       # touching the start (no step)
        (("gp", T), ("after", 1)),        # touching the end (no step)
        (("mid", 1), ("gp", 2)),          # shorter than a step, contains no grid point
    ] + ([(("gp", 3), ("gp", T)),         # from / up to the fourth grid point (on the hourly grid across the autumn clock change: the second 02:00)
          (("gp", 0), ("gp", 3))] if T >= 5 else [])


def gen(ch):
    gname = ch.pick("grid", ["4x6h", "5xh", "3xd_spring", "12h_partial", "4x6h_d", "4x6h_cet", "7xh_autumn"])
    gj = dict(S.GRIDS[gname])
    g = Grid.from_json(gj)
    T = g.T
    prices = S.make_prices(T, ch.free("prices", S.PRICE_PAIRS[:2]))
    base = ch.free("base", ["market", "tight", "two"])
    assets = []
    if base == "market":
        assets.append(dict(type="SimpleContract", name="mkt", nodes=["n1"], price="p", min_cap=S.r(-5.0, g), max_cap=S.r(5.0, g)))
        assets.append(S.gen_storage(ch, g, "sto", ["n1"], {}))
    elif base == "tight":
        assets.append(dict(type="SimpleContract", name="dem", nodes=["n1"], min_cap=S.r(-1.5, g), max_cap=S.r(-1.5, g)))
        assets.append(dict(type="SimpleContract", name="sup", nodes=["n1"], price="q", min_cap=0.0, max_cap=S.r(1.0, g)))
        assets.append(dict(type="SimpleContract", name="spill", nodes=["n1"], price="ec", min_cap=S.r(-1.0, g), max_cap=0.0))
    else:
        assets.append(dict(type="SimpleContract", name="mkt", nodes=["n2"], price="p", min_cap=S.r(-5.0, g), max_cap=S.r(5.0, g)))
        assets.append(dict(type="Transport", name="tr", nodes=["n2", "n1"], min_cap=0.0, max_cap=S.r(1.5, g), efficiency=0.9))
        assets.append(dict(type="SimpleContract", name="dem", nodes=["n1"], min_cap=S.r(-1.0, g), max_cap=S.r(-1.0, g)))
    n = ch.pick("n_orders", [1, 2, 3])
    P = placements(T)
    O = []
    for k in range(n):
        pl = ch.pick("o%d.place" % k, P[k % 2:] + P[:k % 2])
        side = ch.pick("o%d.side" % k, ["buy", "sell"] if k % 2 == 0 else ["sell", "buy"])
        lvl = ch.pick("o%d.price" % k, ["good", "bad"])
        if side == "buy":
            capa, pr = 2.0, (2.5 if lvl == "good" else 7.5)
        else:
            capa, pr = -2.0, (4.5 if lvl == "good" else 0.2)
        O.append((pl, capa * (1.0 + 0.25 * k), pr))
    ob = dict(type="OrderBook", name="ob", nodes=["n1"],
              orders=dict(start=[g.instant_iso(s) for (s, e), c, p in O], end=[g.instant_iso(e) for (s, e), c, p in O],
                          capa=[S.r(c, g) for _, c, p in O], price=[p for _, c, p in O]))
    if ch.pick("whole_numbers", [False, True]) and g.mtu == "h":
        # capacities and prices as python ints (an order table typed in by hand)
        ob["orders"]["capa"] = [int(round(c * 2)) for _, c, p in O]
        ob["orders"]["price"] = [int(round(p + 0.5)) for _, c, p in O]
    if ch.pick("duplicate", [False, True]):   # the same offer twice: two orders, two execution variables
        for key in ("start", "end", "capa", "price"):
            ob["orders"][key] = ob["orders"][key] + [ob["orders"][key][0]]
    if ch.pick("orders_form", ["dict", "DataFrame"]) == "DataFrame":
        ob["orders_df"] = True
    if ch.pick("full_exec", [False, True]):
        ob["full_exec"] = True
    w = ch.free("ob.wacc", [0.0, 0.3])
    if w:
        ob["wacc"] = w
    pos = ch.free("ob.pos", ["last", "first", "middle"])
    if pos == "last":
        assets.append(ob)
    elif pos == "first":
        assets.insert(0, ob)
    else:
        assets.insert(1, ob)
    if g.tz:
        # orders are compared with the zone-aware grid directly: give them zone-aware - in the grid's zone or, as the same
        # instants, in another one
        oz = ch.pick("ob.zone", [None, "UTC", "Asia/Tokyo"])
        if oz:
            ob["orders_zone"] = oz
        return dict(S.finish(gj, assets, prices), date_tz=g.tz)
    return S.finish(gj, assets, prices)


def build_cases(tier):
    K = 2 if tier == "quick" else 3
    cases, stats = merge_cases(family("orders", gen, K))
    stats["bound"] = dict(K=K)
    return cases, stats


def run_case(case):
    scn = case["scenario"]
    tags = S.feature_tags(scn)
    res = dict(status="ok", violations=[], counters={})
    V = res["violations"]
    g = Grid.from_json(scn["grid"])
    ob = [a for a in scn["assets"] if a["name"] == "ob"][0]
    tz = scn.get("date_tz") or g.tz
    o = ob["orders"]
    cover = []
    for s, e in zip(o["start"], o["end"]):
        s_, e_ = parse_instant(s, tz), parse_instant(e, tz)
        cover.append([t for t in range(g.T) if s_ <= g.points[t] < e_])
    n_out = sum(1 for c in cover if not c)
    if n_out:
        tags = tags + ["ob:order_without_step"]
    if scn["assets"][-1]["name"] != "ob":
        tags = tags + ["ob:not_last"]
    try:
        ref = R2.RefModel(scn)
        rst, rval = ref.optimum()
    except R2.Unsupported:
        res["status"] = "skip"
        return res
    run = ImplRun(scn, solver="SCIPY")
    res["fingerprint"] = "%s|%s|%s" % (run.status, None if run.value is None else round(run.value, 6), rst)
    res["outcome"] = "%s/%s" % (run.status, rst)
    if run.status == "exception":
        res["counters"]["impl_error@%s" % run.site] = 1
        if rst == "optimal":
            V.append(viol("c20.impl_rejects", "EAO raises %s at %s (stage %s); the reference solves it (%.6f)" % (run.error, run.site, run.stage, rval),
                          tags + ["site:%s" % run.site], ["site:%s" % run.site]))
        return res
    if run.status == "inaccurate":
        res["status"] = "skip"
        return res
    if (run.status == "optimal") != (rst == "optimal"):
        V.append(viol("c20.status", "EAO status %s, reference %s" % (run.status, rst), tags, [run.status]))
        return res
    if rst != "optimal":
        res["counters"]["both_infeasible"] = 1
        return res
    ctag = [t for t in tags if t.startswith("ob:")]
    if not close(run.value, rval):
        V.append(viol("c20.value", "optimal value EAO %.8f vs one-variable-per-order reference %.8f" % (run.value, rval), tags, ctag))
    # execution fractions from the special table
    sp = run.out["special"]
    sp = sp[sp["asset"] == "ob"]
    frac = {}
    for _, r in sp.iterrows():
        try:
            frac[int(r["name"])] = float(r["value"])
        except Exception:
            V.append(viol("c20.special", "unreadable order row in special output: %r" % (dict(r),), tags, ctag))
    for k, c in enumerate(cover):
        if c and k not in frac:
            V.append(viol("c20.special", "order %d (covering steps %s) is missing from the special output" % (k, c), tags, ctag))
    for k, f in frac.items():
        if f < -1e-6 or f > 1 + 1e-6:
            V.append(viol("c20.fraction", "order %d executed at fraction %.6f" % (k, f), tags, ctag))
        if ob.get("full_exec") and min(abs(f), abs(f - 1)) > 1e-6:
            V.append(viol("c20.full_exec", "order %d executed at fraction %.6f although full execution is enforced" % (k, f), tags, ctag))
    # delivery per step and payment
    tab, nodes = run.table()
    disp = tab.get(("ob", "n1"))
    disc = g.discount(ob.get("wacc", 0.0) or 0.0)
    want = np.zeros(g.T)
    pay = 0.0
    for k, c in enumerate(cover):
        f = frac.get(k, 0.0)
        for t in c:
            want[t] += f * o["capa"][k] * g.dt[t]
            pay += f * o["capa"][k] * o["price"][k] * g.dt[t] * disc[t]
    if disp is None:
        V.append(viol("c20.delivery", "no dispatch column for the order book", tags, ctag))
    elif np.abs(disp - want).max() > 1e-6 * (1 + np.abs(want).max()):
        t = int(np.argmax(np.abs(disp - want)))
        V.append(viol("c20.delivery", "step %d: book delivers %.6f, sum of fraction*capacity*dt over covering orders is %.6f" % (t, disp[t], want[t]), tags, ctag))
    dcf = float(np.nansum(run.out["DCF"]["ob"].values))
    if not close(dcf, -pay, rel=1e-6, abs_=1e-6):
        V.append(viol("c20.payment", "book's DCF %.8f, -sum fraction*capacity*price*dt*discount = %.8f" % (dcf, -pay), tags, ctag))
    # plug-in
    pst, pval = ref.plug_in(tab)
    if pst != "optimal":
        V.append(viol("c20.plugin_infeasible", "EAO's dispatch is not feasible for the reference (%s)" % pst, tags, ctag))
    elif not close(pval, run.value, abs_=1e-7 + ref.pin_slack):
        V.append(viol("c20.plugin_value", "EAO's dispatch is worth %.8f in the reference, EAO reports %.8f" % (pval, run.value), tags, ctag))
    # orders without a step inside the horizon are inert (differential)
    if n_out:
        scn2 = copy.deepcopy(scn)
        ob2 = [a for a in scn2["assets"] if a["name"] == "ob"][0]
        keep = [k for k, c in enumerate(cover) if c]
        for key in ("start", "end", "capa", "price"):
            ob2["orders"][key] = [ob2["orders"][key][k] for k in keep]
        run2 = ImplRun(scn2, solver="SCIPY", want_output=False)
        if run2.status != "optimal" or not close(run2.value, run.value):
            V.append(viol("c20.inert", "value %.8f with the out-of-horizon orders, %s without them"
                          % (run.value, run2.value if run2.status == "optimal" else run2.status + ":" + str(run2.error)), tags, ctag))
        res["counters"]["inert_checked"] = 1
    res["nontrivial"] = bool(any(abs(f) > 1e-6 for f in frac.values()))
    if any(1e-6 < f < 1 - 1e-6 for f in frac.values()):
        res["counters"]["fractional_execution"] = 1
    return res
