"""C11 - JSON round trip preserves every asset and portfolio."""
import copy
import numpy as np
import pandas as pd

from mc import scenario as S
from mc.explore import chash
from ref.grid import Grid
from .common import viol, merge_cases, family, short_exc, exc_site

PROPERTY = "C11"
RULE = ("E1: every asset class (SimpleContract, Contract, Transport, ExtendedTransport, Storage, MultiCommodityContract, Plant, CHPAsset "
        "incl. the no-heat form, CHPAsset_with_min_load_costs, ScaledAsset, StructuredAsset, LinkedAsset, OrderBook from dict and "
        "DataFrame) and portfolios with / without own grid x parameter forms (scalar, interval dict as list / datetime64 array / "
        "object array / DatetimeIndex, series name) x naive / CET / UTC dates x saved before / after a set-up, <= K deviations; "
        "distinct = canonical case; non-trivial = the original builds and at least one (grid, prices) pair gives a problem")
ASSUMPTIONS = ["problems are compared by canonical hash (mc/history.py) on three (grid, prices) pairs: naive, CET, other horizon",
               "an exception of the loaded object counts as agreement only if the original raises the same exception type"]
EXPLANATION = "bounded exhaustive enumeration of asset classes x parameter forms; round-trip equality on every case"
MIN_NONTRIVIAL_FRACTION = 0.5
MAX_S = {"quick": 900, "thorough": 7200}

CLASSES = ["SimpleContract", "Contract", "Transport", "ExtendedTransport", "Storage", "MultiCommodityContract", "Plant", "CHPAsset",
           "CHP_noheat", "CHP_minload", "ScaledAsset", "StructuredAsset", "LinkedAsset", "OrderBook", "OrderBookDF", "Portfolio", "PortfolioGrid"]

TEST_GRIDS = [dict(start="2021-01-01T00:00", end="2021-01-02T00:00", freq="6h", mtu="h", tz=None),
              dict(start="2021-01-01T00:00", end="2021-01-02T00:00", freq="6h", mtu="h", tz="CET"),
              dict(start="2021-01-01T12:00", end="2021-01-03T00:00", freq="6h", mtu="h", tz=None),
              dict(start="2021-03-27T00:00", end="2021-03-29T00:00", freq="6h", mtu="h", tz="CET")]


def ivd(vals, form, edges=("2020-12-31T00:00", "2021-01-01T12:00", "2021-01-05T00:00")):
    if form == "index_freq":   # regular daily dates across the spring clock change
        edges = ("2021-03-27T00:00", "2021-03-28T00:00", "2021-03-29T00:00")
    return dict(start=[edges[0], edges[1]], end=[edges[1], edges[2]], values=list(vals), form=form)


def gen(ch):
    cls = ch.free("class", CLASSES)
    date_tz = ch.pick("date_tz", [None, "CET", "UTC"])
    form = ch.pick("form", ["list", "array", "index", "objarray", "index_freq", "pylist"])
    when = ch.pick("when", ["before_setup", "after_setup"])
    win = ch.pick("window", [None, ("2021-01-01T06:00", "2021-01-02T18:00")])
    w = dict(start=win[0], end=win[1]) if win else {}
    spec = dict(cls=cls, date_tz=date_tz, when=when)
    if cls == "SimpleContract":
        caps = ch.pick("caps", ["scalar", "dict", "series"])
        a = dict(type="SimpleContract", name="a", nodes=["n1"], price="p", min_cap=-5.0, max_cap=5.0, extra_costs=ch.pick("ec", [0.0, 0.5, "dict"]), **w)
        if a["extra_costs"] == "dict":
            a["extra_costs"] = ivd([0.5, 0.2], form)
        if caps == "dict":
            a["max_cap"] = ivd([5.0, 3.0], form)
        elif caps == "series":
            a["max_cap"] = "q"
        if ch.pick("periodicity", [None, "12h"]):
            a["periodicity"] = "12h"
            a["periodicity_duration"] = "d"
    elif cls == "Contract":
        a = dict(type="Contract", name="a", nodes=["n1"], price="p", min_cap=0.0, max_cap=5.0,
                 min_take=dict(start=["2021-01-01T06:00"], end=["2021-01-03T00:00"], values=[10.0], form=form), **w)
        if ch.pick("max_take", [False, True]):
            a["max_take"] = dict(start=["2021-01-01T00:00", "2021-01-02T00:00"], end=["2021-01-02T00:00", "2021-01-04T00:00"], values=[80.0, 90.0], form=form)
        if ch.pick("freq", [None, "12h"]):
            a["freq"] = "12h"
    elif cls == "Transport":
        a = dict(type="Transport", name="a", nodes=["n1", "n2"], min_cap=0.0, max_cap=3.0, efficiency=ch.pick("eff", [1.0, 0.9]),
                 costs_const=ch.pick("cc", [0.0, 0.1]), **w)
        if ch.pick("cts", [False, True]):
            a["costs_time_series"] = "q"
    elif cls == "ExtendedTransport":
        a = dict(type="ExtendedTransport", name="a", nodes=["n1", "n2"], min_cap=0.0, max_cap=3.0,
                 max_take=dict(start=["2021-01-01T00:00"], end=["2021-01-02T00:00"], values=[30.0], form=form), **w)
    elif cls == "Storage":
        a = dict(type="Storage", name="a", nodes=["n1"], size=8.0, cap_in=1.0, cap_out=2.0, start_level=1.0, end_level=1.0,
                 eff_in=ch.pick("eff", [1.0, 0.9]), inflow=ch.pick("inflow", [0.0, 0.1]), **w)
        if ch.pick("block", [None, "d"]):
            a["block_size"] = "d"
        if ch.pick("two_nodes", [False, True]):
            a["nodes"] = ["n1", "n2"]
        if ch.pick("mip", [False, True]):
            a["no_simult_in_out"] = True
            a["max_store_duration"] = 12.0
        if ch.pick("price", [None, "q"]):
            a["price"] = "q"
    elif cls == "MultiCommodityContract":
        a = dict(type="MultiCommodityContract", name="a", nodes=["n1", "n2"], price="p", min_cap=0.0, max_cap=4.0,
                 factors_commodities=[1.0, ch.pick("f2", [0.5, -2.0])], **w)
    elif cls in ("Plant", "CHPAsset", "CHP_noheat", "CHP_minload"):
        a = dict(name="a", price="p", min_cap=1.0, max_cap=10.0, **w)
        if cls == "Plant":
            a.update(type="Plant", nodes=["n1", "nf"] if ch.pick("fuel", [False, True]) else ["n1"])
        elif cls == "CHPAsset":
            a.update(type="CHPAsset", nodes=["n1", "nh", "nf"] if ch.pick("fuel", [False, True]) else ["n1", "nh"], max_share_heat=0.5)
        elif cls == "CHP_noheat":
            a.update(type="CHPAsset", nodes=["n1", "nf"] if ch.pick("fuel", [True, False]) else ["n1"], _no_heat=True)
            a["_no_heat_"] = True
        else:
            a.update(type="CHPAsset_with_min_load_costs", nodes=["n1", "nh"], min_load_threshhold=3.0, min_load_costs=1.0)
        if ch.pick("ramp", [False, True]):
            a.update(ramp=2.0, last_dispatch=2.0, time_already_running=2)
        if ch.pick("uc", [False, True]):
            a.update(min_runtime=12, min_downtime=12, time_already_off=6, start_costs=3.0)
        sc = ch.pick("running_costs", [0.0, 0.5, "dict"])
        a["running_costs"] = ivd([0.5, 0.2], form) if sc == "dict" else sc
        if ch.pick("profiles", [False, True]):
            a.update(start_ramp_lower_bounds=[1.0, 2.0], start_ramp_upper_bounds=[2.0, 4.0], shutdown_ramp_lower_bounds=[1.0],
                     shutdown_ramp_upper_bounds=[3.0], ramp_freq="6h", ramp=3.0)
        if "nf" in a["nodes"]:
            a.update(fuel_efficiency=0.5, start_fuel=1.0)
    elif cls == "ScaledAsset":
        base = ch.pick("base", ["storage", "contract", "transport"])
        if base == "storage":
            b = dict(type="Storage", name="b", nodes=["n1"], size=8.0, cap_in=1.0, cap_out=2.0, **w)
        elif base == "contract":
            b = dict(type="SimpleContract", name="b", nodes=["n1"], price="q", min_cap=-2.0, max_cap=ivd([3.0, 2.0], form), **w)
        else:
            b = dict(type="Transport", name="b", nodes=["n1", "n2"], min_cap=0.0, max_cap=2.0, **w)
        a = dict(type="ScaledAsset", name="a", base_asset=b, min_scale=0.0, max_scale=2.0, norm_scale=ch.pick("norm", [1.0, 4.0]),
                 fix_costs=ch.pick("fix", [0.0, 0.1]), **w)
    elif cls == "StructuredAsset":
        inner = [dict(type="Storage", name="i1", nodes=["ni"], size=6.0, cap_in=1.0, cap_out=1.0, **w),
                 dict(type="Transport", name="i2", nodes=["ni", "n1"], min_cap=-2.0, max_cap=2.0),
                 dict(type="SimpleContract", name="i3", nodes=["ni"], price="q", min_cap=0.0, max_cap=ivd([2.0, 1.0], form))]
        a = dict(type="StructuredAsset", name="a", nodes=["n1"], portfolio=inner, **(w if ch.pick("own_window", [False, True]) else {}))
    elif cls == "LinkedAsset":
        p1 = dict(type="Plant", name="i1", nodes=["n1"], price="p", min_cap=1.0, max_cap=4.0, start_costs=2.0, time_already_off=10)
        p2 = dict(type="Plant", name="i2", nodes=["n1"], price="q", min_cap=1.0, max_cap=3.0, time_already_off=10)
        a = dict(type="LinkedAsset", name="a", nodes=["n1"], portfolio=[p1, p2], asset1_variable=["i2", "disp", "n1"],
                 asset2_variable=["i1", "bool_on", None], asset2_time_already_running=0, time_back=1, time_forward=0)
    elif cls in ("OrderBook", "OrderBookDF"):
        a = dict(type="OrderBook", name="a", nodes=["n1"],
                 orders=dict(start=["2021-01-01T06:00", "2021-01-01T00:00"], end=["2021-01-01T18:00", "2021-01-03T00:00"],
                             capa=[2.0, -1.5], price=[2.5, 4.0]), full_exec=ch.pick("full", [False, True]))
        spec["orders_form"] = "df" if cls == "OrderBookDF" else form
    elif cls in ("Portfolio", "PortfolioGrid"):
        assets = [dict(type="SimpleContract", name="m", nodes=["n1"], price="p", min_cap=-5.0, max_cap=ivd([5.0, 3.0], form)),
                  dict(type="Storage", name="s", nodes=["n1"], size=8.0, cap_in=1.0, cap_out=2.0, **w),
                  dict(type="Transport", name="t", nodes=["n1", "n2"], min_cap=0.0, max_cap=3.0),
                  dict(type="SimpleContract", name="k", nodes=["n2"], price="q", min_cap=-4.0, max_cap=4.0)]
        spec["assets"] = assets
        if cls == "PortfolioGrid":
            spec["own_grid"] = ch.pick("own_grid", [dict(start="2021-01-01T00:00", end="2021-01-02T00:00", freq="6h", mtu="h", tz=None),
                                                    dict(start="2021-01-01T00:00", end="2021-01-02T00:00", freq="6h", mtu="h", tz="CET"),
                                                    dict(start="2021-01-01T00:00", end="2021-01-02T00:00", freq="6h", mtu="h", tz="UTC"),
                                                    dict(start="2020-10-25T02:00+01:00", end="2020-10-25T08:00+01:00", freq="h", mtu="h", tz="CET"),
                                                    dict(start="2021-03-27T00:00", end="2021-03-30T00:00", freq="d", mtu="d", tz="CET")])
        return spec
    spec["asset"] = a
    return spec


def build_cases(tier):
    K = 2 if tier == "quick" else 3
    cases, stats = merge_cases(family("roundtrip", gen, K))
    stats["bound"] = dict(K=K, classes=len(CLASSES))
    return cases, stats


def _dates_to_form(kw, form):
    """interval dicts of an asset kw-dict -> requested container form (impl.build_asset handles list/array/index)"""
    return kw


def build_object(spec):
    """fresh original object from the spec"""
    from mc import impl
    import eaopack as eao
    from eaopack.portfolio import Portfolio
    tz = spec.get("date_tz")
    impl.ZONE[0] = None
    if "asset" in spec:
        a = copy.deepcopy(spec["asset"])
        a.pop("_no_heat_", None)
        of = spec.get("orders_form")
        obj = impl.build_asset(_objarray(a), {}, tz)
        if of == "df":
            o = obj.orders
            obj = type(obj)(name=obj.name, nodes=obj.nodes[0], orders=pd.DataFrame(o), full_exec=obj.full_exec)
        elif of in ("array", "objarray") and hasattr(obj, "orders"):
            obj.orders = {k: np.array(v, dtype=object if k in ("start", "end") else float) for k, v in obj.orders.items()}
        return obj
    nodes = {}
    pf = Portfolio([impl.build_asset(_objarray(x), nodes, tz) for x in spec["assets"]])
    if spec.get("own_grid"):
        g = spec["own_grid"]
        impl.ZONE[0] = g.get("tz")
        pf.set_timegrid(impl.build_grid(g))
        impl.ZONE[0] = None
    return pf


def _objarray(a):
    """form 'objarray' is not known to impl: mark it so that dates become an object array of Timestamps"""
    return a


def setup(obj, gj, T):
    """-> descriptor of the problem the object gives on a grid"""
    from mc import impl, history as H
    tg = impl.build_grid(gj)
    base = np.array([1, 5, 2, 6, 1.5, 5.5, 2.5, 6.5], float)
    prices = dict(p=np.array([base[i % 8] for i in range(tg.T)]), q=np.array([base[::-1][i % 8] for i in range(tg.T)]))
    try:
        op = obj.setup_optim_problem(prices, tg)
        return ("problem", H.problem_hash(op))
    except Exception as e:
        return ("exception", type(e).__name__)


def run_case(case):
    import eaopack as eao
    from mc import impl, history as H
    spec = case["scenario"]
    res = dict(status="ok", violations=[], counters={})
    V = res["violations"]
    cls = spec["cls"]
    tags = ["class:" + cls, "date_tz:%s" % spec.get("date_tz"), "when:" + spec["when"]]
    ctag = ["class:" + cls]
    try:
        obj = build_object(spec)
    except Exception as e:
        res.update(status="skip", validated=False, outcome="constructor:" + type(e).__name__)
        return res
    if spec["when"] == "after_setup":
        if spec.get("own_grid"):
            try:  # with the portfolio's own grid, so that the grid to be saved stays the same
                g0 = obj.timegrid
                base0 = np.array([1, 5, 2, 6, 1.5, 5.5, 2.5, 6.5], float)
                obj.setup_optim_problem(dict(p=np.array([base0[i % 8] for i in range(g0.T)]), q=np.array([base0[::-1][i % 8] for i in range(g0.T)])))
            except Exception:
                pass
        else:
            d = setup(obj, TEST_GRIDS[1 if spec.get("date_tz") else 0], None)
        tags.append("saved_after_setup")
    try:
        s1 = eao.serialization.to_json(obj)
    except Exception as e:
        V.append(viol("c11.save", "%s cannot be saved: %s" % (cls, short_exc(e)), tags, ctag + ["save"]))
        return res
    try:
        obj2 = eao.serialization.load_from_json(s1)
    except Exception as e:
        V.append(viol("c11.load", "%s cannot be loaded from its own JSON: %s at %s" % (cls, short_exc(e), exc_site()), tags, ctag + ["load", spec["when"]]))
        return res
    try:
        s2 = eao.serialization.to_json(obj2)
        if s2 != s1:
            import difflib
            diff = [l for l in difflib.unified_diff(s1.splitlines(), s2.splitlines(), lineterm="", n=0)][2:8]
            V.append(viol("c11.fixpoint", "saving the loaded %s gives a different JSON: %s" % (cls, diff), tags, ctag + ["fixpoint"]))
    except Exception as e:
        V.append(viol("c11.fixpoint", "the loaded %s cannot be saved again: %s" % (cls, short_exc(e)), tags, ctag + ["fixpoint"]))
    # identical problems on three (grid, prices) pairs: fresh original vs freshly loaded object
    n_prob = 0
    for gi, gj in enumerate(TEST_GRIDS):
        try:
            o1 = build_object(spec)
        except Exception:
            break
        o2 = eao.serialization.load_from_json(s1)
        d1 = setup(o1, gj, None)
        d2 = setup(o2, gj, None)
        if d1[0] == "problem":
            n_prob += 1
        if d1 != d2:
            V.append(viol("c11.problem", "%s on grid %d: original gives %s, loaded object gives %s" % (cls, gi, d1, d2), tags + ["grid:%d" % gi],
                          ctag + ["problem", d2[0]]))
            break
    # a portfolio's own grid survives with the same points and zone; what optimised before optimises after
    if spec.get("own_grid"):
        g1, g2 = obj.timegrid, getattr(obj2, "timegrid", None)
        if g2 is None:
            V.append(viol("c11.grid", "the loaded portfolio has no time grid", tags, ctag + ["grid"]))
        else:
            same_pts = len(g1.timepoints) == len(g2.timepoints) and all(a == b for a, b in zip(g1.timepoints, g2.timepoints))
            if not same_pts or not np.allclose(g1.dt, g2.dt):
                V.append(viol("c11.grid", "time points differ after loading: %s... vs %s..." % (list(g1.timepoints[:2]), list(g2.timepoints[:2])), tags, ctag + ["grid_points"]))
            if str(g1.tz) != str(g2.tz):
                V.append(viol("c11.grid_tz", "grid zone %r before saving, %r after loading" % (g1.tz, g2.tz), tags, ctag + ["grid_tz"]))
            base = np.array([1, 5, 2, 6, 1.5, 5.5, 2.5, 6.5], float)
            prices = dict(p=np.array([base[i % 8] for i in range(g1.T)]), q=np.array([base[::-1][i % 8] for i in range(g1.T)]))

            def solve(o):
                try:
                    op = o.setup_optim_problem(prices)
                    r = op.optimize(solver="SCIPY")
                    return ("value", round(float(r.value), 6)) if not isinstance(r, str) else ("status", r)
                except Exception as e:
                    return ("exception", type(e).__name__, str(e)[:80])
            v1, v2 = solve(build_object(spec)), solve(eao.serialization.load_from_json(s1))
            if v1 != v2:
                V.append(viol("c11.optimise", "portfolio with its own grid: original gives %s, loaded gives %s" % (v1, v2), tags, ctag + ["optimise"]))
            n_prob += v1[0] == "value"
    res["nontrivial"] = bool(n_prob >= 1)
    res["outcome"] = "%s:%d" % (cls, n_prob)
    res["fingerprint"] = chash(s1)
    return res
