"""C10 - building a problem is a pure function of parameters, prices and grid.

E2: explicit-state breadth-first search over histories of API calls on ONE set of objects
(a portfolio with interval-dict parameters, a structured asset whose inner assets are also
used in a flat portfolio, four shared grid objects, shared price dicts). After every
transition the problem returned by the call is compared with the problem fresh objects
return for the same arguments. States are canonical hashes of everything later calls can
observe (mc/history.py); a history reaching a known state is not extended.
"""
import os
import sys
import copy
import numpy as np
import pandas as pd

from mc.explore import chash
from .common import viol, short_exc, exc_site

PROPERTY = "C10"
REPLAY_FUNC = "run_history"
RULE = ("E2 BFS: histories of <= D operations from the alphabet {portfolio set-up on grid i with price set j (4x2), stand-alone asset "
        "set-up (3 assets x 2 grids), set-up with the grid set previously (2), split set-up (2), optimise + extract_output, to_json, "
        "flat portfolio sharing the structured asset's inner assets (2), cost samples (2), set-up of a portfolio with an own-freq and a periodic asset and a user-supplied fix_time_window dictionary (3), split set-up with prices as a DataFrame without dates (2), stand-alone asset set-up with the grid it was given before (2), make_slp (thorough)}; state = canonical hash of all "
        "objects, grids (incl. cached restricted grid and discount factors) and user data; distinct = distinct states; "
        "non-trivial = transition whose call returned a problem that was compared with the fresh-object problem")
ASSUMPTIONS = ["EAO keeps state only in the objects hashed by mc/history.py (module dictionaries are hashed before/after each run and must not change)",
               "problems are compared by canonical hash of c,l,u,A,b,cType, mapping rows and nodal-row record (rounded to 1e-9)",
               "an exception is a violation unless fresh objects raise the same exception type for the same call"]
EXPLANATION = "explicit-state BFS over API histories with state merging; fresh-object equality oracle on every transition"
MIN_NONTRIVIAL_FRACTION = 0.0
MAX_S = {"quick": 900, "thorough": 7200}

GRIDS = [dict(start="2021-01-01", end="2021-01-02", freq="6h", tz=None),
         dict(start="2021-01-02", end="2021-01-04", freq="6h", tz=None),
         dict(start="2021-01-01", end="2021-01-02", freq="6h", tz="CET"),
         dict(start="2021-01-01 00:00", end="2021-01-01 05:00", freq="h", tz=None)]


def alphabet(tier):
    ops = []
    for gi in range(4):
        for pj in range(2):
            ops.append(("S", gi, pj))
    for k in ("con", "sto", "st"):
        for gi in (0, 2):
            ops.append(("A", k, gi))
    ops += [("SP", 0), ("SP", 1), ("SPLIT", 0), ("SPLIT", 1), ("OPT",), ("JSON",), ("FLAT", 0), ("FLAT", 1), ("ST2", 0), ("ST2", 1), ("FLAT2", 0), ("FLAT2", 1), ("CS", 0), ("CS", 1), ("ARR", 0), ("ARR", 2), ("FIX", 0), ("FIX", 1), ("FIX", 3), ("FIXA", 0), ("FIXA", 1), ("FIXA", 3), ("PAR", "tr.efficiency", 0.7), ("PAR", "xtr.efficiency", 0.8), ("SPLITDF", 0), ("SPLITDF", 2), ("AP", "con"), ("AP", "sto")]
    if tier == "thorough":
        ops += [("SLP", 0), ("SLP", 1)]
    return ops


class World:
    def __init__(self):
        import eaopack as eao
        from eaopack.assets import Node, Timegrid, Contract, SimpleContract, Storage, Transport
        from eaopack.portfolio import Portfolio, StructuredAsset
        T = pd.Timestamp
        n1, n2, ni = Node("n1"), Node("n2"), Node("ni")
        self.capd = dict(start=[T("2020-12-31"), T("2021-01-01 12:00")], end=[T("2021-01-01 12:00"), T("2021-01-05")], values=[4.0, 3.0])
        self.taked = dict(start=[T("2021-01-01 06:00")], end=[T("2021-01-03")], values=np.array([10.0]))   # float array, kept by reference
        self.con = Contract(name="con", nodes=n1, price="p", min_cap=-5.0, max_cap=self.capd, min_take=self.taked, extra_costs=0.1)
        self.sto = Storage("sto", nodes=n1, size=8.0, cap_in=1.0, cap_out=2.0, start_level=1.0, end_level=1.0, wacc=0.2,
                           start=T("2021-01-01 06:00"))
        self.tr = Transport(name="tr", nodes=[n1, n2], min_cap=0.0, max_cap=3.0, efficiency=0.9)
        self.cap_arr = np.array([4.0])   # capacity as float array (kept by reference)
        self.mk2 = SimpleContract(name="mk2", nodes=n2, price="q", min_cap=-4.0, max_cap=self.cap_arr)
        from eaopack.assets import Plant
        self.pl = Plant(name="pl", nodes=[n1], price="q", min_cap=1.0, max_cap=3.0, min_runtime=12, min_downtime=6, time_already_off=18, start_costs=1.0)
        from eaopack.assets import ExtendedTransport
        self.xtake = dict(start=[T("2021-01-01")], end=[T("2021-01-05")], values=np.array([60.0]))   # values as float array (documented form)
        self.xtr = ExtendedTransport(name="xtr", nodes=[n1, n2], min_cap=0.0, max_cap=1.0, efficiency=0.95, max_take=self.xtake,
                                     min_take=dict(start=[T("2021-01-01")], end=[T("2021-01-05")], values=np.array([4.0])))
        self.isto = Storage("isto", nodes=ni, size=6.0, cap_in=1.0, cap_out=1.0, start_level=0.0, end_level=0.0,
                            start=T("2021-01-01"), end=T("2021-01-02 12:00"))
        self.itr = Transport(name="itr", nodes=[ni, n1], min_cap=-2.0, max_cap=2.0)
        self.st = StructuredAsset(name="st", nodes=[n1], portfolio=Portfolio([self.isto, self.itr]),
                                  start=T("2021-01-01 06:00"), end=T("2021-01-03 12:00"))
        from eaopack.assets import OrderBook
        self.orders = dict(start=[T("2021-01-01 06:00"), T("2021-01-01 00:00")], end=[T("2021-01-01 18:00"), T("2021-01-03 00:00")],
                           capa=[2.0, -1.5], price=[2.5, 4.0])
        self.orders_df = pd.DataFrame(self.orders)   # orders handed over as DataFrame: kept as numpy arrays by the order book
        self.ob = OrderBook(name="ob", nodes=n1, orders=self.orders_df)
        # an asset alone at its node and active on the second day only: on the other grids that node has no dispatch at all
        n3 = Node("n3")
        self.late = SimpleContract(name="late", nodes=n3, price="p", min_cap=-1.0, max_cap=1.0, start=T("2021-01-02 06:00"), end=T("2021-01-03"))
        # a plant with a fuel node whose efficiency is a time series of the price data (a dispatch factor that changes with the prices)
        nf = Node("nf")
        self.plf = Plant(name="plf", nodes=[n1, nf], min_cap=0.0, max_cap=2.0, fuel_efficiency="eff")
        self.gas = SimpleContract(name="gas", nodes=nf, price="q", min_cap=0.0, max_cap=10.0)
        self.pf = Portfolio([self.con, self.sto, self.ob, self.tr, self.xtr, self.mk2, self.st, self.late, self.pl, self.plf, self.gas])
        self.fm = SimpleContract(name="fm", nodes=n1, price="p", min_cap=-5.0, max_cap=5.0)
        # capacities as float arrays of grid length (valid on the 4-step grids only), in a portfolio of their own
        self.cap4 = np.array([1.0, 2.0, 1.5, 0.5])
        self.arr4 = SimpleContract(name="arr4", nodes=n1, price="q", min_cap=-self.cap4, max_cap=self.cap4)
        self.pf_arr = Portfolio([SimpleContract(name="am", nodes=n1, price="p", min_cap=-5.0, max_cap=5.0), self.arr4])
        self.flat = Portfolio([self.fm, self.isto, self.itr])
        # a second structured asset, stand-alone, with an END only (no start), over inner assets reaching beyond it; they are also used flat
        nk = Node("nk")
        self.ksto = Storage("ksto", nodes=nk, size=6.0, cap_in=1.0, cap_out=1.0, start_level=0.0, end_level=0.0, end=T("2021-01-03"))
        self.ktr = Transport(name="ktr", nodes=[nk, n1], min_cap=-2.0, max_cap=2.0)
        self.st2 = StructuredAsset(name="st2", nodes=[n1], portfolio=Portfolio([self.ksto, self.ktr]), end=T("2021-01-01 18:00"))
        self.flat2 = Portfolio([SimpleContract(name="fm2", nodes=n1, price="p", min_cap=-5.0, max_cap=5.0), self.ksto, self.ktr])
        # a user-supplied dictionary fixing the first steps to given values (date + full-length array), reused between calls
        self.fw = dict(I=T("2021-01-02 06:00"), x=np.round(np.linspace(-1.0, 1.0, 16), 3))
        # ... and one giving the window as an index array, with values for more variables than any of the problems has
        self.fwa = dict(I=np.array([0, 1]), x=np.round(np.linspace(-1.0, 1.0, 64), 3))
        # (fa has an own freq equal to the step of the 6h grids and coarser than the hourly grid; fb is periodic)
        self.pf_fix = Portfolio([SimpleContract(name="fa", nodes=n1, price="p", min_cap=-5.0, max_cap=5.0, freq="6h"),
                                 SimpleContract(name="fb", nodes=n1, price="q", min_cap=-5.0, max_cap=5.0, periodicity="12h")])
        self.grids = []
        for g in GRIDS:
            self.grids.append(Timegrid(T(g["start"]), T(g["end"]), freq=g["freq"], timezone=g["tz"]))
        self.P = []
        for pj in range(2):
            row = []
            for g in self.grids:
                base = np.array([1, 5, 2, 6, 1.5, 5.5, 2.5, 6.5], float)
                p = np.array([base[i % 8] for i in range(g.T)]) * (1.0 if pj == 0 else 0.5) + pj
                q = p[::-1].copy() + 0.25
                eff = np.array([0.5 if (pj == 0 or i % 2 == 0) else 0.4 for i in range(g.T)])
                row.append(dict(p=p, q=q, eff=eff))
            self.P.append(row)
        # prices as a DataFrame without dates (row i = step i), valid for every grid of four steps
        self.Pdf4 = pd.DataFrame({k: np.asarray(v, float) for k, v in self.P[0][0].items()})
        self.params = ()       # parameters of the objects changed in place so far: ((name, value), ...)
        self.just_built = False  # the last operation was the set-up of the portfolio problem that OPT would solve
        self.acur = {}         # asset -> label of the grid last handed to it
        self.cur = None        # label of the grid last handed to the portfolio
        self.last = None       # (kind, args) of the last portfolio problem
        self.last_op = None
        self.last_res = None

    def objects(self):
        return dict(con=self.con, sto=self.sto, tr=self.tr, mk2=self.mk2, isto=self.isto, itr=self.itr, st=self.st, pf=self.pf,
                    fm=self.fm, flat=self.flat, ksto=self.ksto, ktr=self.ktr, st2=self.st2, flat2=self.flat2, capd=self.capd, taked=self.taked, P=self.P, ob=self.ob, late=self.late, pl=self.pl, plf=self.plf, gas=self.gas, cap_arr=self.cap_arr, cap4=self.cap4, arr4=self.arr4, pf_arr=self.pf_arr, xtr=self.xtr, xtake=self.xtake, orders=self.orders, orders_df=self.orders_df, fw=self.fw, fwa=self.fwa, pf_fix=self.pf_fix, Pdf4=self.Pdf4,
                    ctx=(self.cur, self.last, None if self.last_op is None else "op", sorted(self.acur.items()), self.just_built))

    def key(self):
        from mc import history as H
        k = H.state_key(self.objects(), {"G%d" % i: g for i, g in enumerate(self.grids)})
        return k + ":" + (H.problem_hash(self.last_op) if self.last_op is not None else "-")

    def enabled(self, op):
        if op[0] == "SP":
            return self.cur is not None
        if op[0] == "AP":
            return op[1] in self.acur
        if op[0] in ("OPT",):
            # (a problem built before a parameter was changed stays what it was: it is not compared with fresh objects)
            return self.last_op is not None and getattr(self, "last_params", ()) == self.params
        if op[0] == "SLP":
            return self.last_op is not None and self.last is not None and self.last[0] == "S" and self.last[1] == op[1] and not hasattr(self.last_op, "ops") \
                and getattr(self, "last_params", ()) == self.params
        return True

    def apply(self, op):
        """execute one operation; returns a descriptor of what the call returned"""
        import eaopack as eao
        from mc import history as H
        kind = op[0]
        just_built, self.just_built = self.just_built, False
        if kind == "PAR":   # a parameter of an asset of the portfolio is changed in place (a parameter sweep on the same objects)
            _, name, value = op
            obj, attr = name.split(".")
            setattr(getattr(self, obj), attr, value)
            self.params = tuple(sorted(dict(self.params, **{name: value}).items()))
            return ("set",)
        if kind == "S":
            _, gi, pj = op
            prob = self.pf.setup_optim_problem(self.P[pj][gi], self.grids[gi])
            self.acur.update(con=gi, sto=gi)
            self.cur, self.last, self.last_op, self.last_res = gi, ("S", gi, pj), prob, None
            self.last_params = self.params
            self.just_built = True
            return ("problem", H.problem_hash(prob))
        if kind == "A":
            _, k, gi = op
            prob = getattr(self, k).setup_optim_problem(self.P[0][gi], self.grids[gi])
            if k in ("con", "sto"):
                self.acur[k] = gi
            return ("problem", H.problem_hash(prob))
        if kind == "AP":   # stand-alone asset with the grid it was given before
            _, k = op
            prob = getattr(self, k).setup_optim_problem(self.P[0][self.acur[k]])
            return ("problem", H.problem_hash(prob))
        if kind == "SP":
            _, pj = op
            prob = self.pf.setup_optim_problem(self.P[pj][self.cur])
            self.last, self.last_op, self.last_res = ("S", self.cur, pj), prob, None
            self.last_params = self.params
            self.just_built = True
            return ("problem", H.problem_hash(prob))
        if kind == "SPLIT":
            _, gi = op
            prob = self.pf.setup_split_optim_problem(self.P[0][gi], self.grids[gi], interval_size="12h")
            self.acur.update(con=gi, sto=gi)
            self.cur, self.last, self.last_op, self.last_res = gi, ("SPLIT", gi), prob, None
            self.last_params = self.params
            self.just_built = True
            return ("problem", H.problem_hash(prob))
        if kind == "SPLITDF":
            _, gi = op
            prob = self.pf_fix.setup_split_optim_problem(self.Pdf4, self.grids[gi], interval_size="12h")
            return ("problem", H.problem_hash(prob))
        if kind == "OPT":
            res = self.last_op.optimize(solver="SCIPY")
            self.last_res = res
            if isinstance(res, str):
                return ("status", res)
            if just_built:
                # the problem was set up by the operation just before: its output is part of the comparison (time index and dispatch)
                out = eao.io.extract_output(self.pf, self.last_op, res, None)
                d = out["dispatch"]
                return ("value", repr(round(float(res.value), 6)), chash([[str(x) for x in d.index], list(d.columns), np.round(d.values, 5).tolist()]))
            try:
                # exercised for its possible side effects only: extracting the output of an OLDER problem after the
                # assets were set up on another grid is outside the statement (it may legitimately fail)
                eao.io.extract_output(self.pf, self.last_op, res, None)
            except Exception:
                pass
            return ("value", repr(round(float(res.value), 6)))
        if kind == "JSON":
            s = eao.serialization.to_json(self.pf)
            return ("json_ok",)
        if kind == "CS":   # cost vectors only (the path used by price samples, SLP and robust optimisation)
            _, gi = op
            cs = self.pf.create_cost_samples([self.P[1][gi]], self.grids[gi])
            self.acur.update(con=gi, sto=gi)
            self.cur = gi
            return ("costs", chash(np.round(np.asarray(cs[0], float), 9).tolist()))
        if kind == "ARR":
            _, gi = op
            prob = self.pf_arr.setup_optim_problem(self.P[0][gi], self.grids[gi])
            return ("problem", H.problem_hash(prob))
        if kind == "FIX":
            _, gi = op
            prob = self.pf_fix.setup_optim_problem(self.P[0][gi], self.grids[gi], fix_time_window=self.fw)
            return ("problem", H.problem_hash(prob))
        if kind == "FIXA":
            _, gi = op
            prob = self.pf_fix.setup_optim_problem(self.P[0][gi], self.grids[gi], fix_time_window=self.fwa)
            return ("problem", H.problem_hash(prob))
        if kind == "FLAT":
            _, gi = op
            prob = self.flat.setup_optim_problem(self.P[0][gi], self.grids[gi])
            return ("problem", H.problem_hash(prob))
        if kind == "ST2":
            _, gi = op
            prob = self.st2.setup_optim_problem(self.P[0][gi], self.grids[gi])
            return ("problem", H.problem_hash(prob))
        if kind == "FLAT2":
            _, gi = op
            prob = self.flat2.setup_optim_problem(self.P[0][gi], self.grids[gi])
            return ("problem", H.problem_hash(prob))
        if kind == "SLP":
            _, gi = op
            start_future = self.grids[gi].timepoints[2]
            slp = eao.stoch_lin_prog.make_slp(copy.deepcopy(self.last_op), self.pf, self.grids[gi], start_future, [self.P[1][gi]])
            return ("problem_slp", chash(np.round(slp.c, 9).tolist()))
        raise ValueError(op)


def fresh_reference(op, ctx):
    """what fresh objects return for the same call. ctx = (cur, last) of the world before the call"""
    w = World()
    cur, last = ctx[0], ctx[1]
    for name, value in (ctx[3] if len(ctx) > 3 else ()):   # fresh objects built with the parameters as they are now
        w.apply(("PAR", name, value))
    kind = op[0]
    if kind == "SP":
        w.pf.set_timegrid(w.grids[cur])
        w.cur = cur
    if kind == "AP":
        gi = dict(ctx[2])[op[1]]
        getattr(w, op[1]).set_timegrid(w.grids[gi])
        w.acur[op[1]] = gi
    if kind in ("OPT", "SLP"):
        # the last problem, rebuilt on fresh objects
        if last[0] == "S":
            w.apply(("S", last[1], last[2]))
        else:
            w.apply(("SPLIT", last[1]))
        w.just_built = bool(ctx[4]) if len(ctx) > 4 else False
    return w.apply(op)


_FRESH = {}


def run_history(case):
    """replay a history on fresh objects, check the last transition against the fresh-object result"""
    import eaopack
    hist = [tuple(o) for o in case["history"]]
    res = dict(status="ok", violations=[], counters={})
    so = sys.stdout
    from mc import history as H
    w = World()
    ms0 = H.module_state_hash()
    desc = None
    ctx = (None, None, (), (), False)
    try:
        for i, op in enumerate(hist):
            ctx = (w.cur, w.last, tuple(sorted(w.acur.items())), w.params, w.just_built)
            if not w.enabled(op):
                res.update(status="disabled", validated=False, key=None)
                return res
            err = None
            try:
                desc = w.apply(op)
            except Exception as e:
                desc = ("exception", type(e).__name__, exc_site())
                err = short_exc(e)
                if i < len(hist) - 1:
                    # a prefix that raises was reported when it was the last step; its extensions are not explored
                    res.update(status="prefix_raises", validated=False, key=None)
                    return res
    finally:
        sys.stdout = so
    op = hist[-1] if hist else None
    res["key"] = w.key()
    if H.module_state_hash() != ms0:
        res["violations"].append(viol("c10.module_state", "after %s state outside the objects changed (module-level container or a mutable default argument "
                                      "of an eaopack function): later calls on ANY object may be affected" % (hist,), ["module_state"], ["module_state"]))
    res["stop"] = bool(desc and desc[0] == "exception")
    if op is None:
        res["outcome"] = "initial"
        res["nontrivial"] = False
        return res
    fk = (op, ctx)
    if fk not in _FRESH:
        try:
            _FRESH[fk] = fresh_reference(op, ctx)
        except Exception as e:
            _FRESH[fk] = ("exception", type(e).__name__, exc_site())
    want = _FRESH[fk]
    res["outcome"] = "%s:%s" % (op[0], desc[0])
    res["fingerprint"] = repr(desc)
    tags = ["op:" + op[0]] + ["hist:" + ">".join("".join(map(str, o)) for o in hist)]
    prev_kinds = sorted(set("%s%s" % (o[0], "".join(map(str, o[1:2]))) for o in hist[:-1]))
    if desc[0] == "exception":
        if want[0] == "exception" and want[1] == desc[1]:
            res["counters"]["both_raise"] = 1
        else:
            res["violations"].append(viol("c10.raises", "after %s the call %s raises %s (%s) at %s; fresh objects return %s"
                                          % (hist[:-1], op, desc[1], err, desc[2], want[0]), tags + ["site:" + str(desc[2])],
                                          ["op:" + op[0], "site:" + str(desc[2])]))
    elif want != desc:
        res["violations"].append(viol("c10.differs", "after %s the call %s returns %s; fresh objects return %s" % (hist[:-1], op, desc, want),
                                      tags, ["op:" + op[0], "after:" + (prev_kinds[-1] if prev_kinds else "-")]))
    else:
        res["nontrivial"] = True
    return res


def main(run):
    from mc import runner
    tier = run.tier
    depth = 3 if tier == "quick" else 4
    ops = alphabet(tier)
    seen = {}
    init = dict(history=[], key=chash(["h"]))
    r0 = run.map("run_history", [init])
    k0 = r0[0].get("key")
    seen[k0] = []
    frontier = [[]]
    transitions = 0
    all_cases, all_results = [], []
    maxd = 0
    capped = False
    for d in range(1, depth + 1):
        cands = [dict(history=[list(o) for o in h] + [list(op)], key=chash([h, op])) for h in frontier for op in ops]
        if not cands:
            break
        results = run.map("run_history", cands)
        nxt = []
        for c, r in zip(cands, results):
            if r is None:
                capped = True
                continue
            if r.get("status") in ("disabled", "prefix_raises"):
                continue
            transitions += 1
            maxd = d
            all_cases.append(c)
            all_results.append(r)
            k = r.get("key")
            if k is not None and k not in seen:
                seen[k] = c["history"]
                if not r.get("stop"):
                    nxt.append([tuple(o) for o in c["history"]])
        frontier = nxt
        if capped:
            break
    for c, r in zip(all_cases, all_results):
        c["key"] = r.get("key") or c["key"]
    # distinct non-trivial = distinct (state, op) transitions compared with fresh objects
    for c, r in zip(all_cases, all_results):
        c["key"] = chash(c["history"])
    run.add(all_cases, all_results)
    stats = dict(explorer="E2 BFS over API histories", states=len(seen), transitions=transitions, max_depth=maxd,
                 depth_bound=depth, alphabet=len(ops), capped=capped, bound=dict(depth=depth, operations=len(ops)))
    return run.finish(stats, extra_cov=dict(frontier_left=len(frontier)))
