"""C13 - coarse asset frequency and periodicity equal the fine problem plus equalities."""
import numpy as np

from mc import scenario as S
from ref.grid import Grid
from ref import lp as R2
from .common import viol, merge_cases, family, ImplRun, close

PROPERTY = "C13"
RULE = ("E1: target asset of every type accepting freq / periodicity (contract with one and with two variables per step, take "
        "contract, storage in both forms, transport with efficiency / costs, extended transport with takes, multi-commodity) x "
        "option (coarse frequency 2x/3x/4x fine step; periodicity 2x/3x/4x fine step with and without duration, a period "
        ">= horizon) x window (none, multiple / not multiple of the coarse step) x <= K parameter deviations, on three grids "
        "(T = 8, 8, 12); capacities constant inside each merged group; distinct = canonical scenario; non-trivial = optimal and "
        "the target asset dispatches")
ASSUMPTIONS = ["reference = R2 fine-grid model + equal-rate rows per coarse interval / equal-dispatch rows per period position, with "
               "prices averaged over merged steps and limits averaged as documented",
               "holding costs with coarse frequency are excluded (booked on coarse steps, not a fine-grid quantity); wacc = 0 for coarse assets",
               "uniform step lengths inside each merged group"]
EXPLANATION = "bounded exhaustive scenario enumeration against the fine reference model with equality rows"
MIN_NONTRIVIAL_FRACTION = 0.3
MAX_S = {"quick": 900, "thorough": 7200}

GRID_OPTS = {
    "8x3h": dict(freq=["6h", "12h"], per=[("6h", None), ("12h", None), ("6h", "12h"), ("d", None), ("9h", None), ("6h", "9h")]),
    "8x6h": dict(freq=["12h", "d"], per=[("12h", None), ("d", None), ("12h", "d"), ("2d", None), ("18h", None), ("12h", "18h")]),
    "12x2h": dict(freq=["4h", "6h", "8h"], per=[("4h", None), ("6h", None), ("4h", "12h"), ("8h", None), ("4h", "6h"), ("6h", "10h")]),
    # daily steps of 24, 24, 25, 24 hours: coarse steps of two calendar days contain minor steps of unequal length
    "4xd_autumn": dict(freq=["2d"], per=[]),   # (periods of unequal length are refused by EAO: no periodicity here)
}
TARGETS = ["contract", "contract2", "take_contract", "storage", "storage_sep", "transport", "ext_transport", "multicommodity"]


def gen(ch):
    gname = ch.free("grid", list(GRID_OPTS))
    gj = dict(S.GRIDS[gname])
    g = Grid.from_json(gj)
    T = g.T
    prices = S.make_prices(T, ch.free("prices", S.PRICE_PAIRS[:2]))
    target = ch.free("target", TARGETS)
    kind = ch.free("option", ["freq", "periodicity", "both"])
    opt = {}
    if kind == "both":   # coarse frequency AND a periodicity that is a multiple of it
        f = ch.pick("freq", GRID_OPTS[gname]["freq"])
        per = {"6h": "12h", "12h": "d", "d": "2d", "4h": "8h", "8h": "d"}.get(f)
        eq = ch.pick("both.equal", [False, "equal", "equal_in_days"]) if GRID_OPTS[gname]["per"] else False
        if eq:            # the period IS the coarse step: every coarse step repeats the one before (within each day)
            per = f       # (not on the grid with days of unequal length, where EAO refuses periods)
            if eq == "equal_in_days":
                opt["periodicity_duration"] = "d"
        if per is None:
            return None
        opt["freq"] = f
        opt["periodicity"] = per
    elif kind == "freq":
        opt["freq"] = ch.pick("freq", GRID_OPTS[gname]["freq"])
    else:
        if not GRID_OPTS[gname]["per"]:
            return None
        p = ch.pick("periodicity", GRID_OPTS[gname]["per"])
        opt["periodicity"] = p[0]
        if p[1]:
            opt["periodicity_duration"] = p[1]
    w = ch.pick("window", [None, (("gp", 2), ("gp", T - 2)), (("gp", 1), ("gp", T - 1)), (("gp", 0), ("gp", T - 1)), (("gp", 3), None),
                            (("before", 1), None)])   # reaches out of the grid: the first coarse interval is only partly covered
    if w:
        s, e = S.resolve_window(g, w)
        if s:
            opt["start"] = s
        if e:
            opt["end"] = e
    r = S.r
    assets = [dict(type="SimpleContract", name="mkt", nodes=["n1"], price="p", min_cap=r(-5.0, g), max_cap=r(5.0, g)),
              dict(type="SimpleContract", name="mk2", nodes=["n2"], price="q", min_cap=r(-4.0, g), max_cap=r(4.0, g)),
              dict(type="Transport", name="link", nodes=["n1", "n2"], min_cap=0.0, max_cap=r(1.0, g))]
    if target in ("contract", "contract2", "take_contract"):
        a = dict(type="SimpleContract", name="x", nodes=["n1"], price="q", min_cap=r(-2.0, g), max_cap=r(3.0, g))
        caps = ch.pick("x.caps", ["both", "buy", "sell"])
        if caps == "buy":
            a["min_cap"] = 0.0
        elif caps == "sell":
            a["max_cap"] = 0.0
        if target == "contract2":
            a["extra_costs"] = ch.pick("x.extra_costs", [0.5, 0.2])
        if target == "take_contract":
            a["type"] = "Contract"
            tk = ch.pick("x.take", ["max", "min"])
            step = g.dt[0] * S.MTU_H[g.mtu]
            if tk == "max":
                a["max_take"] = S.interval_dict(g, [((("gp", 0), ("gp", T)), 3.0 * step * 2)])
            else:
                a["min_take"] = S.interval_dict(g, [((("gp", 0), ("gp", T)), -2.0 * step * 3 if caps == "sell" else 1.0 * step)])
    elif target in ("storage", "storage_sep"):
        a = dict(type="Storage", name="x", nodes=["n1"], size=ch.pick("x.size", [8.0, 20.0]), cap_in=r(1.0, g), cap_out=r(2.0, g),
                 start_level=0.0, end_level=0.0)
        if target == "storage_sep":
            sep = ch.pick("x.sep", ["eff", "cost_in", "two_nodes"])
            if sep == "eff":
                a["eff_in"] = 0.9
            elif sep == "cost_in":
                a["cost_in"] = 0.2
            else:
                a["nodes"] = ["n1", "n2"]
        lv = ch.pick("x.levels", [(0.0, 0.0), (2.0, 2.0), (1.0, 3.0)])
        a["start_level"], a["end_level"] = lv
        infl = ch.pick("x.inflow", [0.0, 0.1])
        if infl:
            a["inflow"] = r(infl, g)
    elif target in ("transport", "ext_transport"):
        a = dict(type="Transport", name="x", nodes=["n1", "n2"], min_cap=0.0, max_cap=r(2.0, g))
        e = ch.pick("x.efficiency", [1.0, 0.8])
        if e != 1.0:
            a["efficiency"] = e
        c = ch.pick("x.costs", [0.0, 0.1, "series"])
        if c == "series":
            a["costs_time_series"] = "ec"
        elif c:
            a["costs_const"] = c
        if target == "ext_transport":
            a["type"] = "ExtendedTransport"
            step = g.dt[0] * S.MTU_H[g.mtu]
            a["max_take"] = S.interval_dict(g, [((("gp", 0), ("gp", T)), 2.0 * step * 3)])
    else:
        a = dict(type="MultiCommodityContract", name="x", nodes=["n1", "n2"], price="ec", min_cap=0.0, max_cap=r(3.0, g),
                 factors_commodities=[1.0, ch.pick("x.factor", [0.5, -2.0])])
    a.update(opt)
    pos = ch.free("x.pos", ["last", "first"])
    if pos == "last":
        assets.append(a)
    else:
        assets.insert(0, a)
    return S.finish(gj, assets, prices)


def gen_unit(ch):
    """plant / CHP (on/off variables) declared periodic or given a coarser grid of its own: the constructors accept both options"""
    gname = ch.free("grid", ["8x6h", "12x2h"])
    gj = dict(S.GRIDS[gname])
    g = Grid.from_json(gj)
    T = g.T
    prices = S.make_prices(T, ch.free("prices", S.PRICE_PAIRS[:2]))
    prices["fuelc"] = [3.0] * T
    r = S.r
    kind = ch.free("unit", ["Plant", "CHPAsset"])
    a = dict(type=kind, name="x", nodes=["n1"] if kind == "Plant" else ["n1", "n2"], price="fuelc", min_cap=r(ch.pick("x.min_cap", [1.0, 0.0]), g), max_cap=r(4.0, g))
    opt = ch.free("option", ["periodicity", "freq"])
    if opt == "periodicity":
        p = ch.pick("periodicity", GRID_OPTS[gname]["per"][:3])
        a["periodicity"] = p[0]
        if p[1]:
            a["periodicity_duration"] = p[1]
    else:
        a["freq"] = ch.pick("freq", GRID_OPTS[gname]["freq"])
    if ch.pick("x.start_costs", [0.0, 2.0]):
        a["start_costs"] = 2.0
    if ch.pick("x.min_runtime", [0, 2]):
        a["min_runtime"] = S.d_(2 * g.dt[0] * S.MTU_H[g.mtu], g)
    assets = [dict(type="SimpleContract", name="mkt", nodes=["n1"], price="p", min_cap=r(-9.0, g), max_cap=r(9.0, g)),
              dict(type="SimpleContract", name="mk2", nodes=["n2"], price="q", min_cap=r(-4.0, g), max_cap=r(4.0, g)), a]
    scn = S.finish(gj, assets, prices)
    scn["meta"] = dict(family="unit", option=opt)
    return scn


def run_unit(case):
    """the option works (dispatch periodic / at a constant rate, value between the portfolio without the unit and the one with the unit
    free of the option) or is refused with a message naming the option - anything else is a violation"""
    import copy
    scn = case["scenario"]
    a = [x for x in scn["assets"] if x["name"] == "x"][0]
    opt = scn["meta"]["option"]
    tags = S.feature_tags(scn) + ["option:" + opt, "target:" + a["type"], "family:unit"]
    ctag = ["option:" + opt, "target:unit"]
    res = dict(status="ok", violations=[], counters={})
    V = res["violations"]
    run = ImplRun(scn, solver="SCIPY")
    res["fingerprint"] = "%s|%s" % (run.status, None if run.value is None else round(run.value, 6))
    res["outcome"] = "unit:%s" % run.status
    if run.status == "exception":
        msg = str(run.error)
        if ("Freq of asset" in msg and "unequal to freq" in msg) or "periodic" in msg.lower():
            res.update(status="skip", validated=False, outcome="documented_refusal")   # explicit refusal naming the option: no claim
            res["counters"]["refusal_" + opt] = 1
            return res
        V.append(viol("c13.raises", "%s with %s raises %s at %s (stage %s)" % (a["type"], {k: a[k] for k in ("freq", "periodicity", "periodicity_duration") if k in a},
                                                                             run.error, run.site, run.stage), tags + ["site:%s" % run.site], ctag))
        return res
    if run.status != "optimal":
        res.update(status="skip", validated=False)
        return res
    free = copy.deepcopy(scn)
    for x in free["assets"]:
        if x["name"] == "x":
            for k in ("freq", "periodicity", "periodicity_duration"):
                x.pop(k, None)
    without = copy.deepcopy(scn)
    without["assets"] = [x for x in without["assets"] if x["name"] != "x"]
    rf, rw = ImplRun(free, solver="SCIPY", want_output=False), ImplRun(without, solver="SCIPY", want_output=False)
    tol = 1e-6 * (1 + abs(run.value))
    if rf.status == "optimal" and run.value > rf.value + tol:
        V.append(viol("c13.value", "unit with %s: value %.8f exceeds the value %.8f of the same unit without the option" % (opt, run.value, rf.value), tags, ctag))
    if rw.status == "optimal" and float(a["min_cap"]) >= 0 and not a.get("min_runtime") and run.value < rw.value - tol:
        V.append(viol("c13.value", "unit with %s: value %.8f is below the value %.8f of the portfolio without the unit (it can stay off)" % (opt, run.value, rw.value), tags, ctag))
    res["nontrivial"] = True
    return res


def build_cases(tier):
    K = 2 if tier == "quick" else 3
    cases, stats = merge_cases(family("c13", gen, K), family("unit", gen_unit, K))
    stats["bound"] = dict(K=K)
    return cases, stats


def run_case(case):
    scn = case["scenario"]
    if scn.get("meta", {}).get("family") == "unit":
        return run_unit(case)
    tags = S.feature_tags(scn)
    a = [x for x in scn["assets"] if x["name"] == "x"][0]
    opt_kind = "both" if (a.get("freq") and a.get("periodicity")) else "freq" if a.get("freq") else "periodicity"
    tags += ["option:" + opt_kind, "target:" + a["type"]]
    two_var = bool(a.get("extra_costs")) and a.get("min_cap", 0) < 0 < a.get("max_cap", 0) if a["type"] in ("SimpleContract", "Contract") else \
        (a["type"] == "Storage" and (a.get("eff_in", 1.0) != 1.0 or a.get("cost_in") or len(a["nodes"]) == 2))
    if two_var:
        tags.append("two_variables_per_step")
    if a["type"] in ("Transport", "ExtendedTransport", "MultiCommodityContract"):
        tags.append("several_rows_per_variable")
    ctag = ["option:" + opt_kind, "target:" + a["type"]] + [t for t in tags if t in ("two_variables_per_step", "several_rows_per_variable")]
    res = dict(status="ok", violations=[], counters={})
    V = res["violations"]
    try:
        ref = R2.RefModel(scn)
        rst, rval = ref.optimum()
    except R2.Unsupported as e:
        res.update(status="skip", validated=False, outcome="ref_unsupported")
        return res
    run = ImplRun(scn, solver="SCIPY")
    res["fingerprint"] = "%s|%s|%s" % (run.status, None if run.value is None else round(run.value, 6), rst)
    res["outcome"] = "%s/%s" % (run.status, rst)
    if run.status == "exception":
        res["counters"]["impl_error@%s" % run.site] = 1
        if "periodicity cannot be imposed where" in str(run.error):
            # explicit, documented refusal (coarse steps of unequal weight inside one period position): no claim
            res.update(status="skip", validated=False, outcome="documented_refusal")
            return res
        if rst in ("optimal", "infeasible"):
            V.append(viol("c13.raises", "%s with %s raises %s at %s (stage %s)" % (a["type"], {k: a[k] for k in ("freq", "periodicity", "periodicity_duration") if k in a},
                                                                                 run.error, run.site, run.stage), tags + ["site:%s" % run.site], ctag + ["site:%s" % run.site]))
        return res
    if run.status == "inaccurate":
        res.update(status="skip", validated=False)
        return res
    if (run.status == "optimal") != (rst == "optimal"):
        V.append(viol("c13.status", "EAO %s, fine problem with equalities %s" % (run.status, rst), tags, ctag))
        return res
    if rst != "optimal":
        res["counters"]["both_infeasible"] = 1
        return res
    if not close(run.value, rval):
        V.append(viol("c13.value", "optimal value EAO %.8f, fine problem with the equalities %.8f" % (run.value, rval), tags, ctag))
    # (i) constant rate inside coarse intervals / equal dispatch at equal positions of the periods
    tab, nodes = run.table()
    g = ref.g
    W = ref.aux["x"]["W"]
    for (an, nd), arr in tab.items():
        if an != "x":
            continue
        if a.get("freq"):
            groups = ref._groups(a, g.window(a.get("start"), a.get("end")))
            W = [t for G in groups for t in G]
            inside = set(t for G in groups for t in G)
            for G in groups:
                rates = [arr[t] / g.dt[t] for t in G]
                if max(rates) - min(rates) > 1e-6 * (1 + abs(max(rates, key=abs))):
                    V.append(viol("c13.constant_rate", "node %s: rates %s inside the coarse interval of steps %s" % (nd, [round(x, 6) for x in rates], G), tags, ctag))
                    break
            out = [t for t in range(g.T) if t not in inside and abs(arr[t]) > 1e-7]
            if out:
                V.append(viol("c13.outside", "node %s: dispatch %.6f in step %d outside every complete coarse interval" % (nd, arr[out[0]], out[0]), tags, ctag))
        if a.get("periodicity"):
            cls = ref._periodic_classes(a, W) or []
            for C in cls:
                vals = [arr[t] for t in C]
                if max(vals) - min(vals) > 1e-6 * (1 + abs(max(vals, key=abs))):
                    V.append(viol("c13.periodic", "node %s: dispatch %s at the same period position (steps %s)" % (nd, [round(x, 6) for x in vals], C), tags, ctag))
                    break
    # plug-in: EAO's dispatch is feasible for the fine problem with equalities
    pst, pval = ref.plug_in(tab)
    if pst != "optimal":
        V.append(viol("c13.plugin_infeasible", "EAO's dispatch is not feasible for the fine problem with equalities (%s)" % pst, tags, ctag))
    elif not close(pval, run.value, abs_=1e-7 + ref.pin_slack):
        V.append(viol("c13.plugin_value", "EAO's dispatch is worth %.8f in the fine problem, EAO reports %.8f" % (pval, run.value), tags, ctag))
    res["nontrivial"] = bool(sum(float(np.abs(v).sum()) for (an, _), v in tab.items() if an == "x") > 1e-6)
    return res
