"""C07 - the variable mapping is a faithful description of the assembled problem.

Build-only check (no solver): every scenario of the deviation-bounded space is assembled
by the real Portfolio/Asset code and the structural invariants of the property are
evaluated on the produced problem, using each asset built stand-alone (fresh objects) as
the reference for "what the asset computed for its variables".
"""
import collections
import numpy as np
import pandas as pd

from mc import scenario as S
from mc.explore import chash
from ref.grid import Grid
from .common import viol, fnum, short_exc, exc_site, merge_cases, family

PROPERTY = "C07"
RULE = ("E1: all scenarios of the shared portfolio generator with <= K costed deviations from the "
        "baseline (asset parameters, grids, windows, extras, names, order, split mode), free choices "
        "(price pair, base network, order-book position) fully expanded; distinct = canonical scenario "
        "hash; non-trivial = the problem assembled and has >= 2 assets contributing variables and >= 1 "
        "nodal row; family linked: a LinkedAsset over an inner portfolio (optionally led by a transport / multi-commodity / coarse asset), "
        "link variable disp or bool_on, time_back 0-2, time_forward 0-1, time already running 0-1 steps, <= K+1 deviations, against the "
        "documented rows re-derived through the mapping; every row tying one boolean to dispatch of one step must agree on the step")
ASSUMPTIONS = ["stand-alone asset problems built from fresh objects are the reference for per-variable cost/bounds",
               "c, l, u are concatenated in portfolio order (portfolio.py:88-90), so variable offset+i IS the i-th variable of that asset",
               "float comparison after rounding to 1e-9"]
EXPLANATION = "bounded exhaustive enumeration of scenarios; invariants evaluated on every assembled problem"
MIN_NONTRIVIAL_FRACTION = 0.5
MAX_S = {"quick": 600, "thorough": 5400}

FEATS_ALL = dict(
    grids=["4x6h", "12x2h", "3xd_spring", "12h_partial", "4x6h_d", "4x6h_cet"],
    price_pairs=S.PRICE_PAIRS[:1],
    bases=["one", "two"],
    extras=["mc", "ob", "dem", "plant", "chp", "chpml", "linked", "loop", "mcsame"],
    modes=["mono", "split:12h"],
    caps=1, extra_costs=1, wacc=1, window=1, takes=1,
    freq=["12h"], periodicity=[("12h", None), ("12h", "d")],
    sto_eff=1, sto_costs=1, sto_inflow=1, sto_levels=1, sto_two_nodes=1, sto_blocks=["12h"],
    sto_mip=[6.0], sto_price=1, sto_size0=1,
    tr_dir=1, tr_eff=1, tr_costs=1, tr_takes=1, mc_factors=1, ob_full=1,
    uc_caps=1, uc_ramp=1, uc_times=1, uc_costs=1, chp_heat=1, uc_fuel=1,
)

NAME_SETS = [None, {"mkt": "a", "sup": "1a", "mk2": "1a", "sto": "11", "tr": "1"},
             {"mkt": "1", "sup": "11", "mk2": "11", "sto": "a1", "tr": "a"},
             {"mkt": "n1", "sup": "a (n1)", "mk2": "a (n1)", "sto": "0", "tr": "00"}]


def gen_names(ch):
    """naming / ordering family on a grid long enough for per-asset indices >= 10"""
    gname = ch.free("grid", ["12x2h", "4x6h"])
    feats = dict(grids=[gname], bases=["one", "two"], extras=["ob"], caps=1, extra_costs=1,
                 sto_eff=1, periodicity=[("12h", None)], modes=["mono", "split:12h"])
    scn = S.gen_portfolio(ch, feats)
    ns = ch.pick("names", NAME_SETS)
    perm = ch.pick("order", ["given", "reverse", "rotate"])
    if ns:
        for a in scn["assets"]:
            a["name"] = ns.get(a["name"], a["name"])
    if perm == "reverse":
        scn["assets"] = scn["assets"][::-1]
    elif perm == "rotate":
        scn["assets"] = scn["assets"][1:] + scn["assets"][:1]
    return scn


def gen_wrapped(ch):
    """scaled / structured wrappers around menu assets"""
    gname = ch.pick("grid", ["4x6h", "12x2h", "4x6h_cet"])
    gj = dict(S.GRIDS[gname])
    g = Grid.from_json(gj)
    prices = S.make_prices(g.T, S.PRICE_PAIRS[0])
    feats = dict(caps=1, extra_costs=1, window=1, sto_eff=1, sto_inflow=1, sto_levels=1, tr_eff=1, tr_costs=1,
                 wacc=1, periodicity=[("12h", None)], freq=["12h"])
    assets = [S.gen_contract(ch, g, "mkt", "n1", "p", (-5.0, 5.0), {}),
              dict(type="SimpleContract", name="mk2", nodes=["n2"], price="q", min_cap=S.r(-4.0, g), max_cap=S.r(4.0, g))]
    kind = ch.free("wrap", ["scaled_sto", "scaled_con", "scaled_tr", "struct", "struct_win"])
    if kind.startswith("scaled"):
        if kind == "scaled_sto":
            base = S.gen_storage(ch, g, "b", ["n1"], feats)
        elif kind == "scaled_con":
            base = S.gen_contract(ch, g, "b", "n1", "q", (-2.0, 3.0), feats)
        else:
            base = S.gen_transport(ch, g, "b", ["n1", "n2"], feats)
        sc = dict(type="ScaledAsset", name="sc", base_asset=base, min_scale=0.0,
                  max_scale=ch.pick("sc.max_scale", [2.0, 0.5]), norm_scale=ch.pick("sc.norm", [1.0, 4.0]),
                  fix_costs=S.r(ch.pick("sc.fix_costs", [0.0, 0.1]), g))
        if ch.pick("sc.fixed", [False, True]):
            sc["min_scale"] = sc["max_scale"]
        w = ch.pick("sc.window", S.window_menu(g.T)[:5])
        s, e = S.resolve_window(g, w)
        if s:
            sc["start"] = s
        if e:
            sc["end"] = e
        assets.insert(ch.free("sc.pos", [2, 0]), sc)
    else:
        inner = [S.gen_storage(ch, g, "isto", ["ni"], feats),
                 S.gen_transport(ch, g, "itr", ["ni", "n1"], feats),
                 S.gen_contract(ch, g, "icon", "ni", "q", (0.0, 2.0), feats)]
        if ch.pick("inner_name_clash", [False, True]):
            inner[2]["name"] = "mkt"   # names only have to be unique per portfolio: an inner asset may be called like a top-level one
        st = dict(type="StructuredAsset", name="st", nodes=["n1"], portfolio=inner)
        if kind == "struct_win":
            w = ch.pick("st.window", S.window_menu(g.T)[1:5])
            s, e = S.resolve_window(g, w)
            if s:
                st["start"] = s
            if e:
                st["end"] = e
        assets.insert(ch.free("st.pos", [2, 0]), st)
    return S.finish(gj, assets, prices, mode=ch.pick("mode", ["mono", "split:12h"]))


def gen_linked(ch):
    """LinkedAsset: 'v1_t <= u1_t * v2_(t+i), i = -time_back..time_forward' between two plants of an inner portfolio that may
    start with assets having several mapping rows per variable"""
    gname = ch.pick("grid", ["4x6h", "12x2h", "5xh"])
    gj = dict(S.GRIDS[gname])
    g = Grid.from_json(gj)
    prices = S.make_prices(g.T, S.PRICE_PAIRS[0])
    step_h = g.dt[0] * S.MTU_H[g.mtu]
    T_ = g.T
    assets = [dict(type="SimpleContract", name="mkt", nodes=["n1"], price="p", min_cap=S.r(-9.0, g), max_cap=S.r(9.0, g))]
    lead = ch.pick("lnk.inner_lead", ["none", "transport", "multicommodity", "coarse"])
    inner = []
    if lead == "transport":
        inner += [dict(type="Transport", name="itr", nodes=["ni", "n1"], min_cap=0.0, max_cap=S.r(2.0, g)),
                  dict(type="SimpleContract", name="icon", nodes=["ni"], price="q", min_cap=0.0, max_cap=S.r(2.0, g))]
    elif lead == "multicommodity":
        inner += [dict(type="MultiCommodityContract", name="imc", nodes=["n1", "ni"], price="q", min_cap=0.0, max_cap=S.r(2.0, g), factors_commodities=[1.0, -0.5]),
                  dict(type="SimpleContract", name="icon", nodes=["ni"], price="q", min_cap=0.0, max_cap=S.r(2.0, g))]
    elif lead == "coarse":
        if g.T % 2:
            return None
        inner += [dict(type="SimpleContract", name="icon", nodes=["n1"], price="q", min_cap=0.0, max_cap=S.r(2.0, g), freq="%dh" % int(round(2 * step_h)))]
    p1 = dict(type="Plant", name="lp1", nodes=["n1"], price="ec", min_cap=S.r(1.0, g), max_cap=S.r(4.0, g), start_costs=2.0, time_already_off=S.d_(60.0, g))
    p2 = dict(type="Plant", name="lp2", nodes=["n1"], price="ec", min_cap=S.r(1.0, g), max_cap=S.r(3.0, g), time_already_off=S.d_(60.0, g))
    if ch.pick("lnk.order", ["12", "21"]) == "21":
        inner += [p2, p1]
    else:
        inner += [p1, p2]
    if ch.pick("lnk.inner_tail", ["none", "late_contract"]) == "late_contract":   # an inner asset that starts later, set up last
        inner.append(dict(type="SimpleContract", name="ilate", nodes=["n1"], price="q", min_cap=0.0, max_cap=S.r(1.0, g), start=g.instant_iso(("gp", T_ - 2))))
    v1 = ch.pick("lnk.v1", ["disp", "bool_on"])
    lnk = dict(type="LinkedAsset", name="lnk", nodes=["n1"], portfolio=inner, asset1_variable=["lp2", v1, "n1" if v1 == "disp" else None],
               asset2_variable=["lp1", "bool_on", None],
               asset2_time_already_running=S.d_(ch.pick("lnk.already", [0, 1]) * step_h, g),
               time_back=S.d_(ch.pick("lnk.time_back", [1, 2, 0]) * step_h, g), time_forward=S.d_(ch.pick("lnk.time_forward", [0, 1]) * step_h, g))
    assets.insert(ch.pick("lnk.pos", [1, 0]), lnk)
    return S.finish(gj, assets, prices, meta=dict(family="linked"))


def check_link(scn, T, tags):
    """the rows a LinkedAsset adds to the problem of the same portfolio wrapped as a plain StructuredAsset are exactly the documented
    ones, on the variables its mapping names; upper bounds change only where the documentation says so"""
    from mc import impl
    import copy as _copy
    V = []
    a = [x for x in scn["assets"] if x["type"] == "LinkedAsset"][0]
    st = {k: v for k, v in _copy.deepcopy(a).items() if k not in ("asset1_variable", "asset2_variable", "asset2_time_already_running", "time_back", "time_forward")}
    st["type"] = "StructuredAsset"
    pf_l, tg, prices = impl.build(dict(scn, assets=[a]))
    pf_s, tg2, _ = impl.build(dict(scn, assets=[st]))
    ol = pf_l.assets[0].setup_optim_problem(prices, tg)
    os_ = pf_s.assets[0].setup_optim_problem(prices, tg2)
    n = len(os_.c)
    if len(ol.c) != n or ol.A.shape[0] < os_.A.shape[0]:
        return [viol("c07.link", "linked asset has %d variables / %d rows, the same portfolio as structured asset %d / %d" % (len(ol.c), ol.A.shape[0], n, os_.A.shape[0]), tags, ["link", "shape"])]
    m = ol.mapping
    g = Grid.from_json(scn["grid"])
    step = g.dt[0]

    def var(asset, vname, node, t):
        sel = m[(m["var_name"] == vname + "__" + asset) & (m["time_step"] == t)]
        sel = sel[sel["node"].isnull()] if node is None else sel[sel["node"] == node]
        ids = sorted(set(int(i) for i in sel.index.values))
        return ids[0] if len(ids) == 1 else None
    a1, v1, n1 = a["asset1_variable"]
    a2, v2, n2 = a["asset2_variable"]
    from ref import uc
    tb, tf, al = uc.steps(a["time_back"], step), uc.steps(a["time_forward"], step), uc.steps(a["asset2_time_already_running"], step)
    want_rows = collections.Counter()
    want_u = np.array(os_.u, float).copy()
    for t in range(T):
        j1 = var(a1, v1, n1, t)
        if j1 is None:
            return [viol("c07.link", "variable %s of %s at step %d is not identified by the mapping" % (v1, a1, t), tags, ["link", "mapping"])]
        for i in range(-tb, tf + 1):
            if i + t < -al:
                want_u[j1] = 0.0
                continue
            if i + t < 0 or i + t >= T:
                continue
            j2 = var(a2, v2, n2, t + i)
            if j2 is None:
                return [viol("c07.link", "variable %s of %s at step %d is not identified by the mapping" % (v2, a2, t + i), tags, ["link", "mapping"])]
            row = {j1: 1.0}
            if abs(want_u[j1]) > 1e-13:
                row[j2] = row.get(j2, 0.0) - want_u[j1]
            want_rows[tuple(sorted((j, fnum(x)) for j, x in row.items()))] += 1
    got_rows = collections.Counter()
    A = ol.A.tocsr()
    for r in range(os_.A.shape[0], A.shape[0]):
        row = A.getrow(r)
        got_rows[tuple(sorted((int(j), fnum(x)) for j, x in zip(row.indices, row.data) if abs(x) > 1e-13))] += 1
        if ol.cType[r] != "U" or abs(float(ol.b[r])) > 0:
            V.append(viol("c07.link", "link row %d has type %s and rhs %s" % (r, ol.cType[r], ol.b[r]), tags, ["link", "rhs"]))
            break
    if got_rows != want_rows:
        V.append(viol("c07.link", "link rows differ from 'v1_t <= u1_t * v2_(t+i)': only expected %s; only present %s"
                      % (list((want_rows - got_rows).items())[:3], list((got_rows - want_rows).items())[:3]), tags, ["link", "rows"]))
    if np.abs(np.asarray(ol.u, float) - want_u).max(initial=0) > 1e-9:
        bad = [int(j) for j in np.nonzero(np.abs(np.asarray(ol.u, float) - want_u) > 1e-9)[0]]
        V.append(viol("c07.link", "upper bounds of variables %s differ from the wrapped portfolio although the link does not concern them (or were not set to 0 where it does)"
                      % bad[:6], tags, ["link", "bounds"]))
    if (abs(A[:os_.A.shape[0], :] - os_.A.tocsr()).max() if os_.A.shape[0] else 0) > 1e-9 or np.abs(np.asarray(ol.c) - np.asarray(os_.c)).max(initial=0) > 1e-9:
        V.append(viol("c07.link", "rows / costs of the wrapped portfolio are altered by the link", tags, ["link", "inner"]))
    return V


def build_cases(tier):
    K = 2 if tier == "quick" else 3
    split = dict(FEATS_ALL, grids=["8x6h", "4x6h_off", "7xh_autumn"], modes=["split:12h", "split:d", "split:5h"], common_window=[8, 1, 9])
    fams = [family("main", lambda ch: S.gen_portfolio(ch, FEATS_ALL), K),
            family("split", lambda ch: S.gen_portfolio(ch, split), K),
            family("names", gen_names, K),
            family("wrapped", gen_wrapped, K),
            family("linked", gen_linked, K + 1)]
    cases, stats = merge_cases(*fams)
    stats["bound"] = dict(K=K, families=["main", "split", "names", "wrapped", "linked"])
    return cases, stats


# ------------------------------------------------------------------------------ oracle
def _rows(mapping, c, l, u, only_asset=None):
    """multiset of descriptive tuples of a mapping joined with the variable's cost/bounds"""
    out = collections.Counter()
    cols = mapping.columns
    has_df = "disp_factor" in cols
    has_bool = "bool" in cols
    has_vn = "var_name" in cols
    n = len(c)
    for idx, row in zip(mapping.index.values, mapping.itertuples(index=False)):
        rd = row._asdict() if hasattr(row, "_asdict") else dict(zip(cols, row))
        if only_asset is not None and rd.get("asset") != only_asset:
            continue
        df = rd["disp_factor"] if has_df else 1.0
        if df is None or (isinstance(df, float) and np.isnan(df)):
            df = 1.0
        b = rd["bool"] if has_bool else False
        if b is None or (isinstance(b, float) and np.isnan(b)):
            b = False
        node = rd.get("node")
        if node is None or (isinstance(node, float) and np.isnan(node)):
            node = None
        try:
            i = int(idx)
        except Exception:
            i = -1
        if 0 <= i < n:
            clu = (fnum(c[i]), fnum(l[i]), fnum(u[i]))
        else:
            clu = ("out-of-range",) * 3
        vn = rd["var_name"] if has_vn else None
        out[(str(node), str(rd.get("type")), int(rd["time_step"]), str(vn), fnum(df), bool(b)) + clu] += 1
    return out


def check_problem(op, T, label, tags):
    """shape / range / sanity invariants on one OptimProblem; returns list of violations"""
    V = []
    n = len(op.c)
    if not (len(op.l) == n and len(op.u) == n):
        V.append(viol("c07.shape", "%s: len(c,l,u)=%d,%d,%d" % (label, n, len(op.l), len(op.u)), tags, [label.split(":")[0]]))
        return V
    A = op.A
    if A is not None:
        if A.shape[1] != n:
            V.append(viol("c07.shape", "%s: A has %d columns for %d variables" % (label, A.shape[1], n), tags, [label.split(":")[0]]))
        if op.b is None or len(op.b) != A.shape[0] or len(op.cType or "") != A.shape[0]:
            V.append(viol("c07.shape", "%s: rows A=%d b=%s cType=%d" % (label, A.shape[0], None if op.b is None else len(op.b), len(op.cType or "")), tags, [label.split(":")[0]]))
        if np.isnan(np.asarray(A.sum())).any() or (op.b is not None and np.isnan(np.asarray(op.b, float)).any()):
            V.append(viol("c07.nan", "%s: NaN in A or b" % label, tags, [label.split(":")[0]]))
    for nm, vec in (("c", op.c), ("l", op.l), ("u", op.u)):
        if np.isnan(np.asarray(vec, float)).any():
            V.append(viol("c07.nan", "%s: NaN in %s" % (label, nm), tags, [label.split(":")[0]]))
    if n and not np.all(np.asarray(op.l) <= np.asarray(op.u) + 1e-12):
        V.append(viol("c07.bounds", "%s: l > u for some variable" % label, tags, [label.split(":")[0]]))
    m = op.mapping
    if m is not None and len(m):
        idx = np.asarray(m.index.values)
        try:
            idx_i = idx.astype(np.int64)
            bad = (idx_i < 0) | (idx_i >= n) | (idx_i != idx)
        except Exception:
            bad = np.ones(len(idx), bool)
        if bad.any():
            V.append(viol("c07.index_range", "%s: mapping index %s outside 0..%d" % (label, sorted(set(idx[bad].tolist()))[:6], n - 1),
                          tags, [label.split(":")[0]]))
        ts = np.asarray(m["time_step"].values)
        if ((ts < 0) | (ts >= T)).any() or not np.all(ts == ts.astype(np.int64)):
            V.append(viol("c07.step_range", "%s: time_step outside grid 0..%d: %s" % (label, T - 1, sorted(set(ts.tolist()))[:8]), tags, [label.split(":")[0]]))
        if not bad.any() and A is not None and A.shape[1] == n:
            V += check_coupling(op, label, tags)
        # a variable without a mapping row has zero cost and an all-zero column
        mapped = set(int(i) for i in idx[~bad])
        unm = [i for i in range(n) if i not in mapped]
        if unm:
            c = np.asarray(op.c, float)
            nz_cost = [i for i in unm if abs(c[i]) > 1e-12]
            nz_col = []
            if A is not None and A.shape[1] == n:
                Ac = A.tocsc() if hasattr(A, "tocsc") else None
                if Ac is not None:
                    nz_col = [i for i in unm if Ac[:, i].count_nonzero() > 0]
            if nz_cost or nz_col:
                V.append(viol("c07.unmapped_var", "%s: variables without mapping row have cost %s / constraint entries %s"
                              % (label, nz_cost[:5], nz_col[:5]), tags, [label.split(":")[0]]))
    return V


def check_coupling(op, label, tags):
    """a row that ties exactly one boolean variable to dispatch variables of ONE step of the same (inner) asset - capacity
    rows 'disp_t <= cap * on_t', mode rows of a storage - is a statement about that step: the boolean must be mapped to it"""
    V = []
    m = op.mapping
    if "bool" not in m.columns or not m["bool"].fillna(False).astype(bool).any():
        return V
    info = {}
    vn = m["var_name"].values if "var_name" in m.columns else [None] * len(m)
    for idx, asset, typ, t, b, v in zip(m.index.values, m["asset"].values, m["type"].values, m["time_step"].values,
                                        m["bool"].fillna(False).astype(bool).values, vn):
        owner = (asset, str(v).split("__", 1)[1] if isinstance(v, str) and "__" in v else None)
        d = info.setdefault(int(idx), dict(owner=owner, typ=typ, bool=bool(b), steps=set()))
        d["steps"].add(int(t))
    A = op.A.tocsr()
    for r in range(A.shape[0]):
        if op.cType[r] == "N":
            continue
        row = A.getrow(r)
        cols = [int(j) for j, x in zip(row.indices, row.data) if abs(x) > 1e-13]
        if len(cols) < 2 or any(j not in info for j in cols):
            continue
        bools = [j for j in cols if info[j]["bool"]]
        disp = [j for j in cols if info[j]["typ"] == "d" and not info[j]["bool"]]
        if len(bools) != 1 or not disp or len(bools) + len(disp) != len(cols):
            continue
        if any(info[j]["owner"] != info[bools[0]]["owner"] for j in disp):
            continue
        steps = set().union(*[info[j]["steps"] for j in disp])
        if len(steps) != 1 or any(info[j]["steps"] != steps for j in disp) or len(info[bools[0]]["steps"]) != 1:
            continue   # (merged periodic variables / variables of a coarser asset grid cover several steps: no claim)
        if info[bools[0]]["steps"] != steps:
            V.append(viol("c07.bool_step", "%s: row %d ties boolean variable %d (mapped to step %s) to dispatch variables %s of step %s"
                          % (label, r, bools[0], sorted(info[bools[0]]["steps"]), disp, sorted(steps)), tags, [label.split(":")[0], "bool_step"]))
            break
    return V


def check_nodal(op, n_asset_rows, T, node_names, label, tags):
    """exactly one N row per (node, step) with dispatch rows; pattern = summed factors;
    map_nodal_restr lists exactly these rows in row order."""
    V = []
    m = op.mapping
    A = op.A.tocsr()
    n_rows = A.shape[0]
    nod_rows = list(range(n_asset_rows, n_rows))
    if any(op.cType[r] != "N" for r in nod_rows):
        V.append(viol("c07.nodal", "%s: trailing rows are not all of type N" % label, tags, ["ctype"]))
        return V
    expect = collections.OrderedDict()
    df = m["disp_factor"].values if "disp_factor" in m.columns else np.ones(len(m))
    for idx, node, typ, t, f in zip(m.index.values, m["node"].values, m["type"].values, m["time_step"].values, df):
        if typ != "d" or not isinstance(node, str) or node not in node_names:
            continue
        f = 1.0 if (f is None or (isinstance(f, float) and np.isnan(f))) else float(f)
        d = expect.setdefault((int(t), node), collections.defaultdict(float))
        d[int(idx)] += f
    rec = list(op.map_nodal_restr or [])
    if len(rec) != len(nod_rows):
        V.append(viol("c07.nodal", "%s: %d nodal rows but %d recorded (t,node) pairs" % (label, len(nod_rows), len(rec)), tags, ["count"]))
        return V
    if sorted((int(t), n) for t, n in rec) != sorted(expect.keys()):
        missing = sorted(set(expect.keys()) - set((int(t), n) for t, n in rec))
        extra = sorted(set((int(t), n) for t, n in rec) - set(expect.keys()))
        V.append(viol("c07.nodal", "%s: nodal rows do not match (node,step) pairs with dispatch: missing %s extra %s dup %s"
                      % (label, missing[:4], extra[:4], len(rec) != len(set((int(t), n) for t, n in rec))), tags, ["pairs"]))
        return V
    for r, (t, node) in zip(nod_rows, rec):
        row = A.getrow(r)
        got = {int(j): float(v) for j, v in zip(row.indices, row.data) if abs(v) > 1e-13}
        want = {j: v for j, v in expect[(int(t), node)].items() if abs(v) > 1e-13}
        if set(got) != set(want) or any(abs(got[j] - want[j]) > 1e-9 * (1 + abs(want[j])) for j in want):
            V.append(viol("c07.nodal", "%s: nodal row %d for (%s,%s) has pattern %s, expected %s" % (label, r, t, node, got, want), tags, ["pattern"]))
            break
        if abs(float(op.b[r])) > 0:
            V.append(viol("c07.nodal", "%s: nodal row %d has rhs %s" % (label, r, op.b[r]), tags, ["rhs"]))
            break
    return V


def check_assembled(op, alone, scn, T, label, tags):
    """assembled portfolio problem vs. the assets built stand-alone"""
    V = check_problem(op, T, label, tags)
    if V:
        return V
    names = [a["name"] for a in scn["assets"]]
    types = {a["name"]: a["type"] for a in scn["assets"]}
    n_tot = sum(len(alone[nm].c) for nm in names)
    if n_tot != len(op.c):
        V.append(viol("c07.shape", "%s: %d variables, assets alone have %d" % (label, len(op.c), n_tot), tags, ["total"]))
        return V
    off = 0
    row_off = 0
    A = op.A.tocsr()
    for nm in names:
        oa = alone[nm]
        na = len(oa.c)
        ctag = ["asset_type:" + types[nm]]
        # (1) multiset of descriptive tuples incl. cost and bounds (representation independent)
        want = _rows(oa.mapping, oa.c, oa.l, oa.u) if (oa.mapping is not None and len(oa.mapping)) else collections.Counter()
        got = _rows(op.mapping, op.c, op.l, op.u, only_asset=nm)
        if want != got:
            d1 = list((want - got).items())[:3]
            d2 = list((got - want).items())[:3]
            V.append(viol("c07.multiset", "%s: asset %r: mapping rows/cost/bounds differ from the stand-alone asset; "
                          "only stand-alone: %s; only assembled: %s" % (label, nm, d1, d2), tags + ctag, ctag))
        # (2) block check: c,l,u are concatenated, so the asset's columns are off..off+na
        if oa.A is not None and oa.A.shape[0] > 0:
            ra = oa.A.shape[0]
            blk = A[row_off:row_off + ra, :]
            inside = blk[:, off:off + na]
            diff = abs(inside - oa.A.tocsr()) if na else None
            outside_nnz = blk.count_nonzero() - inside.count_nonzero()
            if (na and diff.max() > 1e-9) or outside_nnz:
                V.append(viol("c07.block", "%s: asset %r: its constraint rows are not placed on its own variables "
                              "(max diff %s, %d entries on other assets' columns)"
                              % (label, nm, None if not na else float(diff.max()), outside_nnz), tags + ctag, ctag))
            if op.cType[row_off:row_off + ra] != oa.cType or np.abs(np.asarray(op.b[row_off:row_off + ra]) - np.asarray(oa.b)).max(initial=0) > 1e-9:
                V.append(viol("c07.block", "%s: asset %r: row types / rhs differ from stand-alone" % (label, nm), tags + ctag, ctag + ["rhs"]))
            row_off += ra
        # (3) every mapping row of the asset points into its own block
        idx = op.mapping.index.values[(op.mapping["asset"] == nm).values]
        if len(idx) and (idx.min() < off or idx.max() >= off + na):
            V.append(viol("c07.owner", "%s: asset %r (variables %d..%d) has mapping rows pointing to %d..%d"
                          % (label, nm, off, off + na - 1, idx.min(), idx.max()), tags + ctag, ctag))
        off += na
    nodes = []
    for a in scn["assets"]:
        for nn in _ext_nodes(a):
            if nn not in nodes:
                nodes.append(nn)
    V += check_nodal(op, row_off, T, nodes, label, tags)
    return V


def _ext_nodes(a):
    if a["type"] == "ScaledAsset":
        return _ext_nodes(a["base_asset"])
    return a["nodes"]


def run_case(case):
    from mc import impl
    import eaopack as eao
    scn = case["scenario"]
    tags = S.feature_tags(scn)
    res = dict(status="ok", violations=[], counters={})
    g = Grid.from_json(scn["grid"])
    T = g.T
    # stand-alone assets (fresh objects)
    try:
        portf_a, tg_a, prices_a = impl.build(scn)
        alone = {}
        for a in portf_a.assets:
            alone[a.name] = a.setup_optim_problem(prices_a, tg_a)
    except Exception as e:
        res.update(status="impl_error", outcome="alone:" + exc_site(), error=short_exc(e))
        res["counters"]["impl_error@" + exc_site()] = 1
        return res
    for a_json, a in zip(scn["assets"], portf_a.assets):
        oa = alone[a.name]
        ctag = ["asset_type:" + a_json["type"]]
        for v in check_problem(oa, T, "alone:" + a_json["type"], tags + ctag):
            v["class_tags"] = sorted(set(v["class_tags"] + ctag))
            res["violations"].append(v)
    try:
        portf, tg, prices, op = impl.setup(scn)
    except Exception as e:
        res.update(status="impl_error", outcome="portfolio:" + exc_site(), error=short_exc(e))
        res["counters"]["impl_error@" + exc_site()] = 1
        return res
    mode = scn.get("mode", "mono")
    if (scn.get("meta") or {}).get("family") == "linked":
        try:
            res["violations"] += check_link(scn, T, tags)
            res["counters"]["link_checked"] = 1
        except Exception as e:
            res["violations"].append(viol("c07.link", "building the linked asset / its structured twin raises %s at %s" % (short_exc(e), exc_site()), tags, ["link", "raises"]))
    if mode == "mono":
        res["violations"] += check_assembled(op, alone, scn, T, "portfolio", tags)
        n_nod = op.cType.count("N")
        contributing = sum(1 for a in portf.assets if len(alone[a.name].c) > 0)
        res["nontrivial"] = bool(contributing >= 2 and n_nod >= 1)
        res["fingerprint"] = chash([np.round(op.c, 9).tolist(), np.round(op.l, 9).tolist(), np.round(op.u, 9).tolist(),
                                    op.cType, sorted(map(str, op.mapping.index.values.tolist()))])
        res["outcome"] = "n=%d rows=%d maprows=%d" % (len(op.c), op.A.shape[0], len(op.mapping))
    else:
        # split: every interval problem obeys the shape invariants; the concatenated mapping
        # points into the concatenated cost vector and uses original step ids
        off = 0
        n_nod = 0
        for k, sub in enumerate(op.ops):
            Tk = T  # sub-problem steps are local; they are < T in any case
            res["violations"] += check_problem(sub, Tk, "split_part", tags)
            off += len(sub.c)
            n_nod += sub.cType.count("N")
        if off != len(op.c):
            res["violations"].append(viol("c07.shape", "split: concatenated c has %d entries, parts have %d" % (len(op.c), off), tags, ["split"]))
        m = op.mapping
        idx = np.asarray(m.index.values)
        if len(idx) and (idx.min() < 0 or idx.max() >= len(op.c)):
            res["violations"].append(viol("c07.index_range", "split: mapping index range %s..%s for %d variables" % (idx.min(), idx.max(), len(op.c)), tags, ["split"]))
        ts = np.asarray(m["time_step"].values)
        if len(ts) and (ts.min() < 0 or ts.max() >= T):
            res["violations"].append(viol("c07.step_range", "split: step ids %s..%s outside original grid 0..%d" % (ts.min(), ts.max(), T - 1), tags, ["split"]))
        # cost/bounds seen through the concatenated mapping equal those of the parts
        off = 0
        for sub in op.ops:
            want = _rows_no_step(sub.mapping, sub.c, sub.l, sub.u)
            sel = m[(m.index.values >= off) & (m.index.values < off + len(sub.c))]
            lcat = np.concatenate([s.l for s in op.ops]) if op.ops else np.array([])
            ucat = np.concatenate([s.u for s in op.ops]) if op.ops else np.array([])
            got = _rows_no_step(sel, op.c, lcat, ucat)
            if want != got:
                res["violations"].append(viol("c07.multiset", "split: mapping of an interval does not describe its variables", tags, ["split"]))
                break
            # ... and names the step of the ORIGINAL grid the variable belongs to: the time point of the interval's own step
            # (interval partition of the original steps from the independent grid model; an interval has a problem iff an asset
            #  is active in it - decided from the life times of the scenario)
            if len(sub.mapping) and len(sel) == len(sub.mapping):
                if off == 0:
                    from ref import lp as R2_
                    g_ = Grid.from_json(scn["grid"])
                    active_steps = set()
                    for a_ in scn["assets"]:
                        active_steps |= set(g_.window(a_.get("start"), a_.get("end"), scn.get("date_tz"))) if a_["type"] not in ("OrderBook",) else set(range(g_.T))
                    parts = [I_ for I_ in R2_.split_intervals(g_, scn["mode"].split(":", 1)[1]) if set(I_) & active_steps]
                    part_no = 0
                if len(parts) != len(op.ops):   # (the reference cannot tell which intervals carry a problem: no claim)
                    parts = []
                    res["counters"]["split_steps_unmatched"] = 1
                I_ = parts[part_no] if part_no < len(parts) else None
                part_no += 1
                want_steps = None if I_ is None or len(I_) <= int(max(sub.mapping["time_step"].values)) else sorted(I_[int(t)] for t in sub.mapping["time_step"].values)
                got_steps = sorted(int(t) for t in sel["time_step"].values)
                if want_steps is not None and want_steps != got_steps:
                    res["violations"].append(viol("c07.split_steps", "split: the rows of an interval name the steps %s of the original grid, the interval covers %s"
                                                  % (sorted(set(got_steps))[:6], sorted(set(want_steps))[:6]), tags, ["split", "steps"]))
                    break
            off += len(sub.c)
        res["nontrivial"] = bool(len(op.ops) >= 2 and n_nod >= 1)
        res["fingerprint"] = chash([np.round(op.c, 9).tolist(), sorted(map(str, idx.tolist()))])
        res["outcome"] = "split parts=%d n=%d" % (len(op.ops), len(op.c))
    return res


def _rows_no_step(mapping, c, l, u):
    out = collections.Counter()
    for k, v in _rows(mapping, c, l, u).items():
        out[(k[0], k[1]) + k[3:]] += v
    return out
