"""C12 - time bookkeeping: the main time unit is irrelevant; limits follow the step length."""
import numpy as np

from mc import scenario as S
from mc.explore import Chooser, chash
from ref.grid import Grid
from ref import lp as R2
from .common import viol, merge_cases, family, ImplRun, close

PROPERTY = "C12"
RULE = ("part 1 (E1 x E3): every portfolio of the generator (contracts, transports, storages incl. inflow / holding cost / maximum holding "
        "duration, multi-commodity, plant with ramp, runtime / downtime, running cost, order book) with <= K deviations is generated "
        "three times from the same choice vector, with all rates and durations expressed for main time unit h, d and min, and every "
        "ordered pair of units is compared; part 2: grids with unequal steps (two DST days, calendar months, autumn-switch hours) with "
        "a must-run contract, inflow, holding and running costs against R1/R2; distinct = canonical choice vector; non-trivial = "
        "optimal in all units with non-zero dispatch; part 3: every duration parameter with 1..11 hours, and start / shutdown ramp profiles "
        "with a unit 0..3 hours into its start ramp, on an hourly grid in the three units")
ASSUMPTIONS = ["the scenario generator converts rates (x unit length) and durations (/ unit length); volumes, prices and per-event costs are unit free",
               "dispatch is compared through the plug-in oracle (R2) where R2 models the portfolio; values always",
               "elapsed time per step is taken from UTC instants (R1)"]
EXPLANATION = "bounded exhaustive scenario enumeration; metamorphic oracle over all pairs of main time units + reference on unequal grids"
MIN_NONTRIVIAL_FRACTION = 0.4
MAX_S = {"quick": 900, "thorough": 7200}

UNIT_GRIDS = {"h": "4x6h", "d": "4x6h_d", "min": "4x6h_min"}
FEATS = dict(price_pairs=S.PRICE_PAIRS[:1], bases=["one", "two"], extras=["mc", "ob", "plant", "dem"],
             caps=1, extra_costs=1, wacc=1, window=1, takes=1,
             sto_eff=1, sto_costs=1, sto_inflow=1, sto_levels=1, sto_mip=[6.0],
             tr_eff=1, tr_costs=1, tr_takes=1, uc_caps=1, uc_ramp=1, uc_times=1, uc_costs=1)
FEATS_UNEQUAL = dict(grids=["3xd_spring", "3xd_autumn", "3xMS", "7xh_autumn", "12h_partial"], price_pairs=S.PRICE_PAIRS[:1],
                     bases=["one"], extras=["dem", "plant"], caps=1, wacc=1, window=1, sto_inflow=1, sto_costs=1, sto_eff=1, uc_costs=1, uc_caps=1, uc_ramp=1)


def gen_unit(unit):
    def gen(ch):
        return S.gen_portfolio(ch, dict(FEATS, grids=[UNIT_GRIDS[unit]]))
    return gen


def build_cases(tier):
    K = 2 if tier == "quick" else 3
    fam1 = family("units", gen_unit("h"), K)
    for c in fam1[0]:
        c["kind"] = "units"
    fam2 = family("unequal", lambda ch: S.gen_portfolio(ch, FEATS_UNEQUAL), K)
    for c in fam2[0]:
        c["kind"] = "unequal"
    # durations of k hours (k = 1..11) for every duration parameter of a plant, on an hourly grid, in every unit
    dur = []
    for param in ("min_runtime", "min_downtime", "time_already_running", "time_already_off", "max_store_duration"):
        for k in range(1, 12):
            c = dict(kind="durations", param=param, hours=k)
            c["key"] = chash(c)
            c["family"] = "durations"
            dur.append(c)
    fam3 = (dur, dict(family="durations", states=len(dur), transitions=len(dur), executions=len(dur)))
    # start / shutdown ramp profiles (rates per main time unit) with a unit that is 0..3 hours into its start ramp
    prof = []
    for profile in ("start3", "shutdown2", "both"):
        for running in (0, 1, 2, 3, 20):
            for ramp in (None, 3.0):
                for pw in (0, 1):
                    c = dict(kind="profiles", profile=profile, running=running, ramp=ramp, pw=pw)
                    c["key"] = chash(c)
                    c["family"] = "profiles"
                    prof.append(c)
    fam4 = (prof, dict(family="profiles", states=len(prof), transitions=len(prof), executions=len(prof)))
    # a unit running at a constant RATE on a grid whose steps differ in length, with a ramp limit that a constant rate respects
    rmp = []
    for gname in ("3xd_spring", "3xd_autumn", "3xMS"):
        for ramp in (0.0, 0.01):
            c = dict(kind="ramp_unequal", grid=gname, ramp=ramp)
            c["key"] = chash(c)
            c["family"] = "ramp_unequal"
            rmp.append(c)
    fam5 = (rmp, dict(family="ramp_unequal", states=len(rmp), transitions=len(rmp), executions=len(rmp)))
    cases, stats = merge_cases(fam1, fam2, fam3, fam4, fam5)
    stats["bound"] = dict(K=K, unit_pairs=6)
    return cases, stats


def run_case(case):
    if case["kind"] == "units":
        return run_units(case)
    if case["kind"] == "durations":
        return run_durations(case)
    if case["kind"] == "profiles":
        return run_profiles(case)
    if case["kind"] == "ramp_unequal":
        return run_ramp_unequal(case)
    return run_unequal(case)


def run_durations(case):
    """a plant whose duration parameter is k hours, on an hourly grid with main time unit h, d, min"""
    res = dict(status="ok", violations=[], counters={})
    V = res["violations"]
    k, param = case["hours"], case["param"]
    vals = {}
    for unit, gname in (("h", "12xh"), ("d", "12xh_d"), ("min", "12xh_min")):
        gj = dict(S.GRIDS[gname])
        g = Grid.from_json(gj)
        T = g.T
        p = [1.0] * T
        p[3] = 9.0
        p[8] = 9.0
        a = dict(type="Plant", name="pl", nodes=["n1"], price="fuelc", min_cap=S.r(2.0, g), max_cap=S.r(4.0, g))
        if param == "max_store_duration":
            a = dict(type="Storage", name="pl", nodes=["n1"], size=6.0, cap_in=S.r(2.0, g), cap_out=S.r(2.0, g), start_level=0.0, end_level=0.0,
                     max_store_duration=S.d_(k, g))
            p = [1.0, 2.0, 3.0, 4.0, 5.0, 6.0, 7.0, 8.0, 9.0, 10.0, 11.0, 12.0]
        elif param == "min_runtime":
            a.update(min_runtime=S.d_(k, g), time_already_off=S.d_(20, g))
        elif param == "min_downtime":
            a.update(min_downtime=S.d_(k, g), time_already_running=S.d_(20, g), min_runtime=S.d_(2, g))
        elif param == "time_already_running":
            a.update(time_already_running=S.d_(k, g), min_runtime=S.d_(6, g))
        else:
            a.update(time_already_off=S.d_(k, g), min_downtime=S.d_(6, g))
            p[0] = 9.0
        scn = dict(grid=gj, prices=dict(p=p, fuelc=[4.0] * T), mode="mono",
                   assets=[dict(type="SimpleContract", name="mkt", nodes=["n1"], price="p", min_cap=S.r(-10.0, g), max_cap=S.r(10.0, g)), a])
        r = ImplRun(scn, solver="SCIPY", want_output=False)
        vals[unit] = (r.status, None if r.value is None else round(r.value, 6))
    res["fingerprint"] = repr(sorted(vals.items()))
    res["outcome"] = "dur:%s" % (vals["h"],)
    tags = ["durations", "param:" + param, "hours:%d" % k]
    if len(set(vals.values())) > 1:
        V.append(viol("c12.duration_units", "plant with %s = %d hours on an hourly grid: (status, value) per main time unit %s" % (param, k, vals), tags, ["durations", "param:" + param]))
    res["nontrivial"] = vals["h"][0] == "optimal"
    return res


def run_ramp_unequal(case):
    """a plant with min_cap = max_cap (one admissible rate when on), already running at that rate, with a tight ramp: staying on at the
    constant rate changes the rate by nothing, so it respects every ramp - the volumes per step are rate x real step length"""
    res = dict(status="ok", violations=[], counters={})
    V = res["violations"]
    gj = dict(S.GRIDS[case["grid"]])
    g = Grid.from_json(gj)
    T = g.T
    rate = S.r(10.0, g)
    a = dict(type="Plant", name="pl", nodes=["n1"], price="fuelc", min_cap=rate, max_cap=rate, ramp=S.r(case["ramp"] * 10.0, g),
             time_already_running=S.d_(100.0, g), last_dispatch=rate)
    scn = dict(grid=gj, prices=dict(p=[9.0] * T, fuelc=[4.0] * T), mode="mono",
               assets=[dict(type="SimpleContract", name="mkt", nodes=["n1"], price="p", min_cap=S.r(-20.0, g), max_cap=S.r(20.0, g)), a])
    run = ImplRun(scn, solver="SCIPY")
    tags = ["ramp_unequal", "param:Plant.ramp", "grid:" + case["grid"], "steps_unequal"]
    res["fingerprint"] = "%s|%s" % (run.status, None if run.value is None else round(run.value, 5))
    res["outcome"] = "ramp_unequal:" + run.status
    want = np.array([rate * g.dt[t] for t in range(T)])
    if run.status != "optimal":
        V.append(viol("c12.ramp_unequal", "plant held at the constant rate %.4f (min_cap = max_cap, running, last dispatch at that rate) with ramp %.4f on a grid with step lengths %s: "
                      "EAO reports %s (%s); the volumes rate x step length %s change between steps although the rate does not"
                      % (rate, a["ramp"], [round(x, 3) for x in g.dt], run.status, run.error, [round(x, 3) for x in want]), tags + ["verdict:" + str(run.status).replace(" ", "_")], ["ramp_unequal"]))
        return res
    tab, _ = run.table()
    arr = tab[("pl", "n1")]
    if np.abs(arr - want).max() > 1e-6 * (1 + np.abs(want).max()):
        V.append(viol("c12.ramp_unequal", "plant held at the constant rate %.4f: volumes %s, rate x step length %s" % (rate, arr, want), tags, ["ramp_unequal", "volumes"]))
    res["nontrivial"] = True
    return res


def run_profiles(case):
    """a plant with start / shutdown ramp profiles on an hourly grid with main time unit h, d, min"""
    res = dict(status="ok", violations=[], counters={})
    V = res["violations"]
    vals = {}
    for unit, gname in (("h", "12xh"), ("d", "12xh_d"), ("min", "12xh_min")):
        gj = dict(S.GRIDS[gname])
        g = Grid.from_json(gj)
        T = g.T
        p = [1.0, 1.0, 9.0, 9.0, 9.0, 1.0, 1.0, 1.0, 9.0, 9.0, 9.0, 9.0] if case["pw"] == 0 else [9.0, 9.0, 9.0, 9.0, 1.0, 1.0, 1.0, 1.0, 1.0, 9.0, 9.0, 1.0]
        # (the time axis of the profiles is given explicitly in hours; their values are rates per main time unit)
        a = dict(type="Plant", name="pl", nodes=["n1"], price="fuelc", min_cap=S.r(4.0, g), max_cap=S.r(10.0, g), ramp_freq="h")
        if case["profile"] in ("start3", "both"):
            a.update(start_ramp_lower_bounds=[S.r(1.0, g), S.r(2.0, g), S.r(3.0, g)], start_ramp_upper_bounds=[S.r(1.0, g), S.r(2.5, g), S.r(3.0, g)])
        if case["profile"] in ("shutdown2", "both"):
            a.update(shutdown_ramp_lower_bounds=[S.r(3.0, g), S.r(1.0, g)], shutdown_ramp_upper_bounds=[S.r(3.0, g), S.r(2.0, g)])
        if case["running"]:
            a.update(time_already_running=S.d_(case["running"], g), last_dispatch=S.r({1: 1.0, 2: 2.0, 3: 3.0}.get(case["running"], 6.0), g))
        else:
            a.update(time_already_off=S.d_(20, g))
        if case["ramp"]:
            a["ramp"] = S.r(case["ramp"], g)
        scn = dict(grid=gj, prices=dict(p=p, fuelc=[4.0] * T), mode="mono",
                   assets=[dict(type="SimpleContract", name="mkt", nodes=["n1"], price="p", min_cap=S.r(-20.0, g), max_cap=S.r(20.0, g)), a])
        r = ImplRun(scn, solver="SCIPY", want_output=False)
        vals[unit] = (r.status, None if r.value is None else round(r.value, 5))
    res["fingerprint"] = repr(sorted(vals.items()))
    res["outcome"] = "prof:%s" % (vals["h"][0],)
    tags = ["profiles", "profile:" + case["profile"], "running:%d" % case["running"]]
    if len(set(vals.values())) > 1:
        V.append(viol("c12.profile_units", "plant with ramp profiles (%s), %d hours already running, ramp %s: (status, value) per main time unit %s"
                      % (case["profile"], case["running"], case["ramp"], vals), tags, ["profiles", "profile:" + case["profile"]]))
    res["nontrivial"] = vals["h"][0] == "optimal"
    return res


def run_units(case):
    res = dict(status="ok", violations=[], counters={})
    V = res["violations"]
    runs, scns = {}, {}
    for unit in ("h", "d", "min"):
        scn = gen_unit(unit)(Chooser(case["choices"]))
        scns[unit] = scn
        runs[unit] = ImplRun(scn, solver="SCIPY")
    tags = S.feature_tags(scns["h"])
    ptags = [t for t in tags if t.startswith("param:")][:3]
    st = {u: r.status for u, r in runs.items()}
    res["fingerprint"] = repr(sorted((u, r.status, None if r.value is None else round(r.value, 5)) for u, r in runs.items()))
    res["outcome"] = "/".join(st[u] for u in ("h", "d", "min"))
    if len(set(st.values())) > 1:
        V.append(viol("c12.status", "status differs between main time units: %s (%s)" % (st, {u: r.error for u, r in runs.items() if r.error}), tags, ptags))
        return res
    if st["h"] != "optimal":
        res.update(status="skip", validated=False)
        return res
    for u1, u2 in (("h", "d"), ("h", "min"), ("d", "min")):
        if not close(runs[u1].value, runs[u2].value, rel=1e-6, abs_=1e-6):
            V.append(viol("c12.value", "value %.8f with main time unit %s, %.8f with %s" % (runs[u1].value, u1, runs[u2].value, u2), tags, ptags + [u1 + u2]))
    tabs = {u: runs[u].table()[0] for u in runs}
    same = all(np.abs(tabs["h"][k] - tabs[u][k]).max() <= 1e-6 * (1 + np.abs(tabs["h"][k]).max()) for u in ("d", "min") for k in tabs["h"])
    if same:
        res["counters"]["identical_dispatch"] = 1
    else:
        try:
            ref = R2.RefModel(scns["h"])
            for u in ("d", "min"):
                pst, pval = ref.plug_in(tabs[u])
                if pst != "optimal" or not close(pval, runs["h"].value, abs_=1e-6 + ref.pin_slack):
                    V.append(viol("c12.dispatch", "the dispatch obtained with main time unit %s is not an optimum of the same portfolio in h (%s, %s vs %.8f)"
                                  % (u, pst, pval, runs["h"].value), tags, ptags + [u]))
            res["counters"]["plugin_used"] = 1
        except R2.Unsupported:
            res["counters"]["dispatch_not_compared"] = 1
    res["nontrivial"] = bool(sum(float(np.abs(v).sum()) for v in tabs["h"].values()) > 1e-6)
    return res


def run_unequal(case):
    scn = case["scenario"]
    res = dict(status="ok", violations=[], counters={})
    V = res["violations"]
    tags = S.feature_tags(scn)
    ptags = [t for t in tags if t.startswith("param:")][:3] + ["grid:" + scn["grid"]["freq"]]
    run = ImplRun(scn, solver="SCIPY")
    res["fingerprint"] = "%s|%s" % (run.status, None if run.value is None else round(run.value, 5))
    res["outcome"] = run.status
    if run.status != "optimal":
        res.update(status="skip", validated=False)
        res["counters"]["impl_%s" % run.status] = 1
        return res
    g = Grid.from_json(scn["grid"])
    tab, _ = run.table()
    # the must-run contract delivers rate x real elapsed time
    for a in scn["assets"]:
        if a["name"] == "dem" and (a["name"], a["nodes"][0]) in tab:
            arr = tab[(a["name"], a["nodes"][0])]
            want = np.array([a["min_cap"] * g.dt[t] for t in range(g.T)])
            if np.abs(arr - want).max() > 1e-7 * (1 + np.abs(want).max()):
                t = int(np.argmax(np.abs(arr - want)))
                V.append(viol("c12.elapsed", "must-run contract with rate %.4f delivers %.6f in step %d of real length %.4f (expected %.6f)"
                              % (a["min_cap"], arr[t], t, g.dt[t], want[t]), tags, ptags))
    # step lengths of the grid object equal the real elapsed time
    dt_impl = np.asarray(run.tg.dt, float)
    if len(dt_impl) != g.T or np.abs(dt_impl - np.array(g.dt)).max() > 1e-9:
        V.append(viol("c12.dt", "Timegrid.dt = %s, real elapsed time per step = %s" % (dt_impl, g.dt), tags, ptags))
    try:
        ref = R2.RefModel(scn)
        rst, rval = ref.optimum()
        if rst == "optimal" and not close(run.value, rval):
            V.append(viol("c12.value_unequal", "value %.8f on a grid with unequal steps, textbook model with real step lengths %.8f" % (run.value, rval), tags, ptags))
        res["counters"]["ref_checked"] = 1
    except R2.Unsupported:
        pass
    res["nontrivial"] = bool(sum(float(np.abs(v).sum()) for v in tab.values()) > 1e-6)
    return res
