"""C14 - split optimisation is consistent with the unsplit problem."""
import copy
import numpy as np

from mc import scenario as S
from ref.grid import Grid
from ref import lp as R2
from .common import short_exc, viol, merge_cases, family, ImplRun, close
from .c01 import balance_violations

PROPERTY = "C14"
RULE = ("E1 x E3: portfolios (contracts with spread / takes / windows / wacc, transports, storages with start = end and start != end level, "
        "inflow, multi-commodity, order book, must-run demand) with <= K deviations x interval sizes {12h, d, 5h, 2d} x horizons (aligned, "
        "starting 06:00, partial last step, autumn clock change, 3 days, daily steps across the spring / autumn clock change); distinct = canonical scenario; non-trivial = all interval "
        "problems optimal with non-zero dispatch and at least two intervals; family mip: a plant with on/off variables (nothing coupling steps) "
        "or a storage with the no-simultaneous option, active in part of the horizon (intervals that are MIPs, LPs or contain no such unit), "
        "<= K+1 deviations, split against the unsplit problem of EAO itself")
ASSUMPTIONS = ["reference value = sum over intervals of the R2 optimum of the scenario cut to the interval, with discounting by the ORIGINAL elapsed time",
               "dispatch: balance per node and step on the original grid + plug-in into the per-interval reference models (per-interval restart)",
               "no coupling = no storage, take, order book; then split must equal the unsplit optimum; storages with start = end level only: split <= unsplit"]
EXPLANATION = "bounded exhaustive scenario enumeration against per-interval reference models"
MIN_NONTRIVIAL_FRACTION = 0.3
MAX_S = {"quick": 900, "thorough": 7200}

FEATS = dict(grids=["8x6h", "4x6h_off", "12h_partial", "7xh_autumn", "12x2h", "8x6h_d", "3xd_spring", "4xd_autumn"], price_pairs=S.PRICE_PAIRS[:1], bases=["one", "two"],
             extras=["mc", "ob", "dem"], modes=["split:12h", "split:d", "split:5h", "split:2d"],
             caps=1, extra_costs=1, wacc=1, window=1, takes=1, sto_eff=1, sto_costs=1, sto_inflow=1, sto_levels=1, sto_two_nodes=1,
             tr_dir=1, tr_eff=1, tr_costs=1, tr_takes=1, mc_factors=1)


def build_cases(tier):
    K = 2 if tier == "quick" else 3
    nosto = dict(FEATS)
    # horizons overhanging the last full interval by exactly one / two steps, intervals of 2-4 steps
    fine = dict(FEATS, grids=["5xh", "12x2h", "7xh_autumn"], modes=["split:2h", "split:4h", "split:3h", "split:6h"])
    cases, stats = merge_cases(family("split", lambda ch: S.gen_portfolio(ch, FEATS), K),
                               family("fine", lambda ch: S.gen_portfolio(ch, fine), K if tier == "thorough" else 1),
                               family("uncoupled", gen_uncoupled, K),
                               family("mip", gen_mip, K + 1))
    stats["bound"] = dict(K=K, sizes=4, horizons=5)
    return cases, stats


def gen_uncoupled(ch):
    """portfolios without anything coupling time steps (no storage, takes, order book)"""
    gname = ch.pick("grid", ["8x6h", "4x6h_off", "12h_partial", "7xh_autumn"])
    gj = dict(S.GRIDS[gname])
    g = Grid.from_json(gj)
    prices = S.make_prices(g.T, ch.free("prices", S.PRICE_PAIRS[:2]))
    feats = dict(caps=1, extra_costs=1, wacc=1, window=1, tr_dir=1, tr_eff=1, tr_costs=1, mc_factors=1)
    assets = [S.gen_contract(ch, g, "mkt", "n1", "p", (-5.0, 5.0), feats),
              S.gen_contract(ch, g, "mk2", "n2", "q", (-4.0, 4.0), feats),
              S.gen_transport(ch, g, "tr", ["n1", "n2"], feats),
              S.gen_contract(ch, g, "sup", "n1", "ec", (0.0, 2.0), feats)]
    if ch.pick("extra.mc", [False, True]):
        assets.append(S.gen_multicommodity(ch, g, "mc", ["n1", "n2"], feats))
    mode = ch.pick("mode", ["split:12h", "split:d", "split:5h", "split:2d"])
    return S.finish(gj, assets, prices, mode=mode)


def gen_mip(ch):
    """a market and a unit with on/off variables but nothing that couples steps (no runtime, ramp or start costs), active in part
    of the horizon: some intervals are MIPs, others LPs, others contain no plant at all"""
    gname = ch.pick("grid", ["8x6h", "12x2h", "4x6h_off"])
    gj = dict(S.GRIDS[gname])
    g = Grid.from_json(gj)
    prices = S.make_prices(g.T, ch.free("prices", S.PRICE_PAIRS[:2]))
    prices["fuelc"] = [3.0] * g.T
    assets = [dict(type="SimpleContract", name="mkt", nodes=["n1"], price="p", min_cap=S.r(-15.0, g), max_cap=S.r(15.0, g))]
    kind = ch.pick("unit", ["plant", "storage_nosimult"])
    if kind == "plant":
        a = dict(type="Plant", name="pl", nodes=["n1"], price="fuelc", min_cap=S.r(ch.pick("pl.min_cap", [1.0, 3.0]), g), max_cap=S.r(10.0, g))
        rc = ch.pick("pl.running_costs", [0.0, 0.5])
        if rc:
            a["running_costs"] = S.r(rc, g)
    else:
        a = dict(type="Storage", name="pl", nodes=["n1"], size=8.0, cap_in=S.r(1.0, g), cap_out=S.r(2.0, g), start_level=0.0, end_level=0.0,
                 no_simult_in_out=True, eff_in=0.9)
    w = ch.pick("pl.window", S.window_menu(g.T))
    s_, e_ = S.resolve_window(g, w)
    if s_:
        a["start"] = s_
    if e_:
        a["end"] = e_
    if ch.free("mkt.same_window", [False, True]):   # then some intervals contain no active asset at all (free: combined with every life time)
        for k in ("start", "end"):
            if k in a:
                assets[0][k] = a[k]
    if ch.pick("pl.pos", ["last", "first"]) == "first":
        assets.insert(0, a)
    else:
        assets.append(a)
    mode = ch.pick("mode", ["split:12h", "split:d", "split:5h", "split:2d"])
    return S.finish(gj, assets, prices, mode=mode, meta=dict(family="mip", unit=kind))


def run_mip(case):
    """EAO against itself: the split result is complete (value, dispatch on the original grid, balance) and - for the plant, which
    couples nothing - equals the unsplit optimum; for the storage (start = end level) it never exceeds it"""
    scn = case["scenario"]
    tags = S.feature_tags(scn) + ["family:mip", "size:" + scn["mode"].split(":")[1]]
    ptags = [t for t in tags if t.startswith("param:")][:2] + ["mip", "grid:" + scn["grid"]["freq"]]
    res = dict(status="ok", violations=[], counters={})
    V = res["violations"]
    g = Grid.from_json(scn["grid"])
    mono = ImplRun(dict(scn, mode="mono"), solver="SCIPY")
    run = ImplRun(scn, solver="SCIPY")
    res["fingerprint"] = "%s|%s|%s" % (run.status, None if run.value is None else round(run.value, 6), mono.status)
    res["outcome"] = "mip:%s/%s" % (run.status, mono.status)
    if mono.status != "optimal":
        res.update(status="skip", validated=False)
        return res
    if run.status == "exception":
        V.append(viol("c14.raises", "split set-up / optimisation raises %s at %s (stage %s); the unsplit problem is solved" % (run.error, run.site, run.stage),
                      tags + ["site:%s" % run.site], ptags + ["site:%s" % run.site]))
        return res
    if run.status != "optimal":
        if scn["meta"]["unit"] == "plant":
            V.append(viol("c14.status", "split optimisation reports %s, the unsplit problem is feasible and nothing couples the steps" % run.status, tags, ptags))
        else:
            res.update(status="skip", validated=False)
        return res
    tab, nodes = run.table()
    T = g.T
    if any(len(v) != T for v in tab.values()):
        V.append(viol("c14.steps", "dispatch table has %s rows, the original grid has %d steps" % (sorted(set(len(v) for v in tab.values())), T), tags, ptags))
        return res
    V += [dict(v, oracle="c14.balance") for v in balance_violations(tab, nodes, T, tags)]
    if scn["meta"]["unit"] == "plant":
        if not close(run.value, mono.value):
            V.append(viol("c14.uncoupled", "nothing couples the intervals: split %.8f, unsplit %.8f" % (run.value, mono.value), tags, ptags))
    elif run.value > mono.value + 1e-6 * (1 + abs(mono.value)):
        V.append(viol("c14.exceeds", "coupling only through a storage with start = end level: split %.8f exceeds unsplit %.8f" % (run.value, mono.value), tags, ptags))
    # the time steps refer to the original grid: nothing is dispatched outside an asset's life time, and the market's cash flow,
    # recomputed from its dispatch with the prices of the ORIGINAL steps, is what the DCF table reports for it
    for x in scn["assets"]:
        W = g.window(x.get("start"), x.get("end"), scn.get("date_tz"))
        for (an, nd), arr in tab.items():
            if an != x["name"]:
                continue
            out = [t for t in range(T) if t not in W and abs(arr[t]) > 1e-7]
            if out:
                V.append(viol("c14.steps", "asset %s dispatches %.6f in step %d of the original grid, its life time covers steps %s" % (an, arr[out[0]], out[0], W), tags, ptags + ["life_time"]))
                break
    mk = [x for x in scn["assets"] if x["name"] == "mkt"][0]
    if ("mkt", "n1") in tab and run.out.get("DCF") is not None and "mkt" in run.out["DCF"].columns and not mk.get("wacc"):
        want = -float(np.dot(np.asarray(scn["prices"]["p"], float), tab[("mkt", "n1")]))
        got = float(np.nansum(run.out["DCF"]["mkt"].values))
        if not close(want, got, abs_=1e-6):
            V.append(viol("c14.steps", "market: cash flow %.8f in the DCF table, its dispatch priced with the prices of the original steps gives %.8f" % (got, want), tags, ptags + ["repriced"]))
    # the value is the cash flow of the reported dispatch
    dcf = run.out.get("DCF")
    if dcf is not None:
        tot = float(np.nansum(np.asarray(dcf.values, float)))
        if not close(tot, run.value, abs_=1e-6):
            V.append(viol("c14.value", "split value %.8f, reported cash flows sum to %.8f" % (run.value, tot), tags, ptags))
    res["nontrivial"] = bool(sum(float(np.abs(v).sum()) for v in tab.values()) > 1e-6)
    return res


def coupling(scn):
    kinds = set()
    for a in scn["assets"]:
        if a["type"] == "Storage":
            kinds.add("storage_eq" if a.get("start_level", 0.0) == a.get("end_level", 0.0) and not a.get("inflow") else "storage_neq")
        if a["type"] == "OrderBook":
            kinds.add("orders")
        if a.get("min_take") or a.get("max_take"):
            kinds.add("takes")
    return kinds


def run_case(case):
    scn = case["scenario"]
    if (scn.get("meta") or {}).get("family") == "mip":
        return run_mip(case)
    tags = S.feature_tags(scn)
    size = scn["mode"].split(":")[1]
    tags += ["size:" + size]
    res = dict(status="ok", violations=[], counters={})
    V = res["violations"]
    g = Grid.from_json(scn["grid"])
    ptags = [t for t in tags if t.startswith("param:")][:2] + ["size:" + size, "grid:" + scn["grid"]["freq"]]
    try:
        intervals = R2.split_intervals(g, size)
        refs = [R2.RefModel(scn, steps=Sk) for Sk in intervals]
        opts = [r.optimum() for r in refs]
    except R2.Unsupported:
        res.update(status="skip", validated=False, outcome="ref_unsupported")
        return res
    rst = "optimal" if all(o[0] == "optimal" for o in opts) else "infeasible"
    rval = sum(o[1] for o in opts) if rst == "optimal" else None
    run = ImplRun(scn, solver="SCIPY")
    res["fingerprint"] = "%s|%s|%s" % (run.status, None if run.value is None else round(run.value, 6), rst)
    res["outcome"] = "%s/%s/%d" % (run.status, rst, len(intervals))
    if run.status == "exception":
        res["counters"]["impl_error@%s" % run.site] = 1
        if rst == "optimal":
            V.append(viol("c14.raises", "split set-up / optimisation raises %s at %s (stage %s); all interval problems are feasible" % (run.error, run.site, run.stage),
                          tags + ["site:%s" % run.site], ptags + ["site:%s" % run.site]))
        else:
            res.update(status="skip", validated=False)
        return res
    if run.status != "optimal":
        if rst == "optimal":
            V.append(viol("c14.status", "split optimisation reports %s, every interval problem of the reference is feasible" % run.status, tags, ptags))
        else:
            res.update(status="skip", validated=False)
        return res
    if rst != "optimal":
        V.append(viol("c14.status", "split optimisation reports success, an interval problem of the reference is infeasible", tags, ptags))
        return res
    if not close(run.value, rval):
        V.append(viol("c14.value", "split value %.8f, sum of the interval optima (discounted by original elapsed time) %.8f over %d intervals"
                      % (run.value, rval, len(intervals)), tags, ptags))
    tab, nodes = run.table()
    T = g.T
    if any(len(v) != T for v in tab.values()):
        V.append(viol("c14.steps", "dispatch table has %s rows, the original grid has %d steps" % (sorted(set(len(v) for v in tab.values())), T), tags, ptags))
        return res
    V += [dict(v, oracle="c14.balance") for v in balance_violations(tab, nodes, T, tags)]
    # per-interval plug-in on the ORIGINAL grid
    tot = 0.0
    ok = True
    slack = 0.0
    for Sk, ref in zip(intervals, refs):
        mask = np.zeros(T)
        mask[Sk] = 1.0
        sub = {k: v * mask for k, v in tab.items()}
        pst, pval = ref.plug_in(sub)
        if pst != "optimal":
            V.append(viol("c14.plugin_infeasible", "the split dispatch restricted to interval steps %s is not feasible for that interval's reference model (%s): "
                          "limits violated or steps do not refer to the original grid" % (Sk, pst), tags, ptags))
            ok = False
            break
        tot += pval
        slack += ref.pin_slack
    if ok and not close(tot, run.value, abs_=1e-6 + slack):
        V.append(viol("c14.plugin_value", "the split dispatch is worth %.8f in the interval reference models, split reports %.8f" % (tot, run.value), tags, ptags))
    # relation to the unsplit optimum
    cp = coupling(scn)
    if not (cp - {"storage_eq"}):
        mono = ImplRun(dict(scn, mode="mono"), solver="SCIPY", want_output=False)
        if mono.status == "optimal":
            if not cp:
                if not close(run.value, mono.value):
                    V.append(viol("c14.uncoupled", "nothing couples the intervals: split %.8f, unsplit %.8f" % (run.value, mono.value), tags, ptags))
                else:
                    try:
                        rm = R2.RefModel(dict(scn, mode="mono"))
                        pst, pval = rm.plug_in(tab)
                        if pst != "optimal" or not close(pval, mono.value, abs_=1e-6 + rm.pin_slack):
                            V.append(viol("c14.uncoupled_dispatch", "nothing couples the intervals, but the split dispatch is not an optimum of the unsplit problem (%s, %s vs %.8f)"
                                          % (pst, pval, mono.value), tags, ptags))
                    except R2.Unsupported:
                        pass
                res["counters"]["uncoupled_checked"] = 1
            else:
                if run.value > mono.value + 1e-6 * (1 + abs(mono.value)):
                    V.append(viol("c14.exceeds", "coupling only through storages with start = end level: split %.8f exceeds unsplit %.8f" % (run.value, mono.value), tags, ptags))
                res["counters"]["bound_checked"] = 1
    # the documented shortcut (cast data, split set-up, optimise with the default solver, extract) gives the same result
    if case.get("cost", 0) <= 1:
        try:
            import eaopack as eao
            from mc import impl
            pf, tg, prices = impl.build(scn)
            out = eao.io.optimize(pf, tg, prices, split_interval_size=scn["mode"].split(":", 1)[1])
            sval = float(out["summary"].loc["value", "Values"]) if "value" in out["summary"].index else None
            res["counters"]["shortcut_checked"] = 1
            if sval is None:
                V.append(viol("c14.shortcut", "the optimisation shortcut reports %s, the split run is optimal (%.8f)" % (out["summary"].to_dict(), run.value), tags, ptags + ["shortcut"]))
            elif not close(sval, run.value, rel=1e-5, abs_=1e-5):
                V.append(viol("c14.shortcut", "the optimisation shortcut with split_interval_size gives %.8f, the split run %.8f" % (sval, run.value), tags, ptags + ["shortcut"]))
            elif len(out["dispatch"]) != g.T:
                V.append(viol("c14.shortcut", "the dispatch of the shortcut has %d rows, the grid %d steps" % (len(out["dispatch"]), g.T), tags, ptags + ["shortcut"]))
        except Exception as e:
            from .common import exc_site
            V.append(viol("c14.shortcut", "the optimisation shortcut with split_interval_size raises %s at %s; the split run is optimal" % (short_exc(e), exc_site()), tags, ptags + ["shortcut", "raises"]))
    res["nontrivial"] = bool(len(intervals) >= 2 and sum(float(np.abs(v).sum()) for v in tab.values()) > 1e-6)
    return res
