"""C05 - storage physics: level within [0,size], ends at the end level, reported truly."""
import itertools
import numpy as np

from mc import scenario as S
from ref.grid import Grid
from ref import storage as R3
from .common import viol, merge_cases, family, ImplRun

PROPERTY = "C05"
RULE = ("E1 x E3: one storage with <= K deviations of its menu (efficiency, costs, inflow, levels, two nodes, blocks, "
        "no-simultaneous / max-duration MIP options, window, size 0, own price, own coarser grid) inside a one- or two-node portfolio, "
        "storage first or last in the asset list (free), times a closed set of price words over {1,6}^T (free); "
        "distinct = canonical scenario; non-trivial = optimal and the storage charges or discharges")
ASSUMPTIONS = ["charge / discharge per step are read from Results.x through the storage's dispatch rows (negative / positive part)",
               "R3 forward simulation of the physical level; tolerance 1e-6*(1+size)",
               "blocks = consecutive spans of block_size from the window start; level restarts at start_level in each block",
               "max_store_duration: a run of steps with non-zero end-of-step level lasts at most that long (sum of step lengths; steps of the storage's own grid if it has one)",
               "reported fill level is compared inside the storage window; in block scenarios only when start level == end level",
               "a storage with its own coarser grid is active in its complete coarse steps; charge / discharge per portfolio step = share of the coarse variable"]
EXPLANATION = "bounded exhaustive scenario enumeration; physical invariants and reported series checked on every solution"
MIN_NONTRIVIAL_FRACTION = 0.4
MAX_S = {"quick": 900, "thorough": 7200}

STO_FEATS = dict(sto_eff=[1.0, 0.9, 1.25], sto_caps=1, sto_costs=1, sto_inflow=1, sto_levels=1, sto_two_nodes=1, sto_blocks=["12h", "d"],
                 sto_mip=[6.0, 12.0, 48.0], sto_price=1, sto_size0=1, window=1, wacc=1)


# the storage on its own, coarser grid (rates constant inside its steps; an incomplete last step is not part of its life time)
STO_FREQ = {"4x6h": dict(freq=["12h"]), "5xh": dict(freq=["2h"]), "8x6h": dict(freq=["12h", "d"]), "12xh": dict(freq=["2h", "3h"], sto_mip=[4.0, 6.0, 12.0])}


def price_words(T, tier):
    allw = [list(w) for w in itertools.product([1.0, 6.0], repeat=T)]
    # three price levels: charging early and holding is strictly better than charging late
    three = [[6.0, 1.0, 3.0, 6.0, 1.0][:T], [1.0, 3.0, 6.0, 1.0, 6.0][:T]]
    if tier == "thorough":
        return allw + three
    keep = [w for i, w in enumerate(allw) if i % 5 == 1][:7]
    keep += [[6.0, 1.0, 1.0, 6.0, 1.0], [1.0, 1.0, 6.0, 1.0, 6.0]] + three
    return keep


def make_gen(tier):
    def gen(ch):
        gname = ch.pick("grid", ["4x6h", "5xh", "8x6h", "3xd_spring", "4x6h_d", "12h_partial", "3xd_autumn", "3xMS", "4xd_autumn", "12xh"])
        gj = dict(S.GRIDS[gname])
        g = Grid.from_json(gj)
        T = g.T
        words = price_words(min(T, 5), tier)
        w = ch.free("pword", words)
        p = [w[i % len(w)] for i in range(T)]
        prices = dict(p=p, q=S.price_pattern("rev", T), ec=S.price_pattern("ec", T))
        base = ch.free("base", ["one", "two"])
        pos = ch.free("sto.pos", ["last", "first"])
        assets = []
        if base == "one":
            assets.append(dict(type="SimpleContract", name="mkt", nodes=["n1"], price="p", min_cap=S.r(-5.0, g), max_cap=S.r(5.0, g)))
            sto = S.gen_storage(ch, g, "sto", ["n1"], dict(STO_FEATS, **STO_FREQ.get(gname, {})))
        else:
            assets.append(dict(type="SimpleContract", name="mkt", nodes=["n1"], price="p", min_cap=S.r(-5.0, g), max_cap=S.r(5.0, g)))
            assets.append(dict(type="SimpleContract", name="mk2", nodes=["n2"], price="q", min_cap=S.r(-4.0, g), max_cap=S.r(4.0, g)))
            assets.append(dict(type="Transport", name="tr", nodes=["n1", "n2"], min_cap=0.0, max_cap=S.r(3.0, g)))
            sto = S.gen_storage(ch, g, "sto", ["n1", "n2"], dict(STO_FEATS, **STO_FREQ.get(gname, {})))
        if sto.get("freq") and (sto.get("block_size") or sto.get("cost_store") or sto.get("wacc")):
            # a storage on its own coarser grid: blocks and holding costs are counted on ITS steps - not a
            # statement about the steps of the portfolio grid; no claim for these combinations (the holding duration is judged on its steps)
            return None
        if sto.get("block_size") and sto.get("start"):
            from ref.grid import parse_instant
            ws = parse_instant(sto["start"], g.tz)
            if ws not in g.all_points and ws > g.start:
                # block boundaries would fall inside grid steps: whether such a step opens the new block or closes the old
                # one is not defined anywhere - no claim
                return None
        if pos == "last":
            assets.append(sto)
        else:
            assets.insert(0, sto)
        return S.finish(gj, assets, prices)
    return gen


def make_gen_coarse(tier):
    """storage on its own coarser grid with a maximum holding duration of a few of ITS steps (hourly grid of twelve steps):
    grid, frequency and duration are free, one further deviation of the storage menu"""
    def gen(ch):
        gj = dict(S.GRIDS["12xh"])
        g = Grid.from_json(gj)
        T = g.T
        w = ch.free("pword", price_words(5, tier))
        prices = dict(p=[w[i % len(w)] for i in range(T)], q=S.price_pattern("rev", T), ec=S.price_pattern("ec", T))
        sto = S.gen_storage(ch, g, "sto", ["n1"], dict(sto_eff=[1.0, 0.9], sto_levels=1, sto_inflow=1, window=1))
        sto["freq"] = ch.free("sto.freq", ["2h", "3h"])
        sto["max_store_duration"] = ch.free("sto.max_store_duration", [4.0, 6.0, 3.0])
        assets = [dict(type="SimpleContract", name="mkt", nodes=["n1"], price="p", min_cap=-5.0, max_cap=5.0), sto]
        if ch.free("sto.pos", ["last", "first"]) == "first":
            assets.reverse()
        return S.finish(gj, assets, prices)
    return gen


def build_cases(tier):
    K = 2 if tier == "quick" else 3
    cases, stats = merge_cases(family("storage", make_gen(tier), K), family("coarse_duration", make_gen_coarse(tier), K - 1))
    stats["bound"] = dict(K=K, price_words=len(price_words(5, tier)))
    return cases, stats


def run_case(case):
    scn = case["scenario"]
    tags = S.feature_tags(scn)
    res = dict(status="ok", violations=[], counters={})
    run = ImplRun(scn, solver="SCIPY")
    res["fingerprint"] = "%s|%s" % (run.status, None if run.value is None else round(run.value, 6))
    if run.status != "optimal":
        res["status"] = "skip"
        res["validated"] = False
        res["outcome"] = run.status
        res["counters"]["impl_%s@%s" % (run.status, run.site)] = 1
        return res
    a = [x for x in scn["assets"] if x["name"] == "sto"][0]
    g = Grid.from_json(scn["grid"])
    W = g.window(a.get("start"), a.get("end"), scn.get("date_tz"))
    groups = None
    if a.get("freq"):
        groups = [list(G) for G in g.coarse(a.get("start"), a.get("end"), a["freq"], scn.get("date_tz"))]
        W = sorted(t for G in groups for t in G)
    m = run.op.mapping
    x = np.asarray(run.res.x, float)
    sel = m[(m["asset"] == "sto") & (m["type"] == "d")]
    # one row per (variable, time step); a variable of a coarser asset grid contributes its share to every step it covers
    sel = sel[~(sel.index.astype(str) + "@" + sel["time_step"].astype(str)).duplicated(keep="first")]
    fac = sel["disp_factor"].values if "disp_factor" in sel.columns else np.ones(len(sel))
    charge, discharge = {}, {}
    for idx, t, f in zip(sel.index.values, sel["time_step"].values, fac):
        v = float(x[int(idx)]) * (1.0 if f is None or np.isnan(f) else float(f))
        charge[int(t)] = charge.get(int(t), 0.0) + max(0.0, -v)
        discharge[int(t)] = discharge.get(int(t), 0.0) + max(0.0, v)
    V = res["violations"]
    if sorted(set(charge)) != sorted(W):
        V.append(viol("c05.window", "storage has dispatch variables at steps %s, window is %s" % (sorted(set(charge)), W), tags, ["window"]))
        return res
    tol = 1e-6 * (1.0 + float(a["size"]) + max([abs(v) for v in charge.values()] + [abs(v) for v in discharge.values()] + [0.0]))
    probs, lev, blocks = R3.check(a, g, W, charge, discharge, tol, scn.get("date_tz"), groups=groups)
    ptags = [t for t in tags if t.startswith("param:Storage")]
    if a.get("block_size") and W:
        from ref.grid import _points, parse_instant
        tz = scn.get("date_tz") or g.tz
        ws = parse_instant(a["start"], tz) if a.get("start") else g.start
        we = parse_instant(a["end"], tz) if a.get("end") else g.end
        if any(g.points[W[-1]] < b <= we for b in _points(ws, we, a["block_size"], g.tz)):
            tags = tags + ["sto:block_boundary_after_last_step"]
    if a.get("start_level", 0.0) != a.get("end_level", 0.0):
        tags = tags + ["sto:levels_differ"]
    ctags = [t for t in ptags if t.split(".")[-1] in ("inflow", "block_size", "max_store_duration", "no_simult_in_out", "eff_in")]
    for orc, msg in probs:
        V.append(viol("c05." + orc, msg, tags, ctags))
    # reported series
    iv = run.out["internal_variables"]
    try:
        sto_obj = [o for o in run.portf.assets if o.name == "sto"][0]
        fl = np.asarray(sto_obj.fill_level(run.op, run.res), float)
    except Exception as e:
        fl = None
        V.append(viol("c05.reported_fill_level", "Storage.fill_level raises %r" % (e,), tags, ptags + ["raises"]))
    compare_level = not (a.get("block_size") and a.get("start_level", 0.0) != a.get("end_level", 0.0))
    if fl is not None and compare_level:
        for t in W:
            if abs(fl[t] - lev[t]) > 10 * tol:
                V.append(viol("c05.reported_fill_level", "Storage.fill_level()[%d] = %.6f, physical level %.6f" % (t, fl[t], lev[t]), tags, ctags))
                break
    for col, phys, sign in (("sto_charge", charge, 1.0), ("sto_discharge", discharge, None), ("sto_fill_level", lev, 1.0)):
        if col not in iv.columns:
            V.append(viol("c05.reported_" + col[4:], "internal_variables has no column %s" % col, tags, ptags + ["missing"]))
            continue
        if col == "sto_fill_level" and not compare_level:
            continue
        arr = np.asarray(iv[col].values, float)
        if sign is None:  # the sign convention of the reported discharge is not prescribed
            ok = all(abs(abs(arr[t]) - phys.get(t, 0.0)) <= 10 * tol for t in W)
            signs = set(np.sign(arr[t]) for t in W if abs(arr[t]) > 10 * tol)
            ok = ok and len(signs) <= 1
        else:
            ok = all(abs(arr[t] - phys.get(t, 0.0)) <= 10 * tol for t in W)
        if not ok:
            t = [t for t in W if abs(abs(arr[t]) - abs(phys.get(t, 0.0))) > 10 * tol]
            t = t[0] if t else W[0]
            V.append(viol("c05.reported_" + col[4:], "internal_variables[%s][%d] = %.6f, physical %.6f" % (col, t, arr[t], phys.get(t, 0.0)), tags, ctags))
    act = sum(charge.values()) + sum(discharge.values())
    res["nontrivial"] = bool(act > 1e-6)
    res["outcome"] = "lev:" + ",".join("%.2f" % lev[t] for t in W[:6])
    return res
