"""C03 - the optimiser returns a feasible, optimal point of the assembled problem.

Family 1 (E3 + R5): ALL tiny OptimProblems over a closed alphabet (n = 2 variables, thorough also
n = 3; up to 2 rows; every pair of row types U/L/S/N; boolean flag sets incl. booleans with non-0/1
bounds; mappings in different orders, with duplicated rows and with a variable lacking a row),
each solved through OptimProblem.optimize by EVERY available solver choice and compared with the
exact rational optimum (vertex enumeration, no solver). A second call after
optimize(make_soft_problem=True) is part of the alphabet.
Family 4 (E3): every sequence of <= 3 (thorough 4) one-variable intervals, from a menu with infeasible ones, as a
SplitOptimProblem: success only if every interval is feasible, then x = concatenation of the exact interval optima.
Family 2 (E1 problems): assembled portfolio problems (LP and MIP, mono and split) solved by every
solver and checked against HiGHS on the raw arrays and against the rows themselves.
"""
import itertools
from fractions import Fraction as F
import numpy as np
import pandas as pd

from mc import scenario as S
from ref.grid import Grid
from mc.explore import chash, explore_e1
from ref import exactlp as R5
from .common import viol, short_exc, exc_site, solve_arrays, bool_vars

PROPERTY = "C03"
RULE = ("family 1: product of row sets (<= 2 rows from 5 coefficient patterns x rhs {-1,1,2} x types {U,L,S,N}, every pair of types) x "
        "bound pairs x boolean flag sets x mapping variants x cost vectors x every available solver (LP: default, SCIPY, CLARABEL, SCS, "
        "OSQP; MIP: default, SCIPY, SCIP, and CLARABEL as a solver that cannot treat it) + the history [optimize(make_soft_problem=True), optimize()]; family 2: assembled "
        "problems of portfolio scenarios (mono and split, LP and MIP) x solvers, MIPs also relaxed with make_soft_problem; distinct = canonical problem; non-trivial = "
        "feasible problem on which at least one solver reported success; family 4: every sequence of <= 3 (thorough 4) one-variable intervals from a menu of 5 (two infeasible) as a SplitOptimProblem x 3 solvers")
ASSUMPTIONS = ["exact optimum by rational vertex enumeration (ref/exactlp.py) for the tiny family; HiGHS on the raw arrays for the assembled family",
               "a flagged variable is boolean ({0,1}) as in the cvxpy interface; the first mapping row of a variable carries the flag",
               "tolerances: 1e-6 for HiGHS/CLARABEL/SCIP results, 2e-3 for the first-order solvers SCS and OSQP",
               "interface='ortools' is not installed in this image and is not explored"]
EXPLANATION = "full product of tiny problems x solvers against an exact rational oracle"
MIN_NONTRIVIAL_FRACTION = 0.3
MAX_S = {"quick": 900, "thorough": 7200}

PATTERNS2 = [(1, 0), (0, 1), (1, 1), (1, -1), (-1, 1)]
RHS = [-1, 1, 2]
TYPES = "ULSN"
BOUNDS2 = [((0, 2), (0, 2)), ((-1, 1), (0, 3)), ((0, 3), (1, 1)), ((-1, 1), (-1, 1)),
           ((1, 1), (0, 0)), ((1, 1), (1, 1)),     # every variable fixed by its bounds: the rows decide between the one point and infeasibility
           ((0.3, 0.5), (0, 2)), ((0, 0.5), (0.25, 3)),
           ((0.25, 0.25), (0, 2))]   # the last: a variable fixed (l == u) to a fraction, as fix_time_window does with a relaxed result
COSTS2 = [(1, -1), (-1, -2), (0, 1), (-1, 0.5)]
BOOLS2 = [(), (0,), (0, 1)]
MAPVARS = ["identity", "reversed", "duplicated", "missing0"]
LP_SOLVERS = [None, "SCIPY", "CLARABEL", "SCS", "OSQP"]
MIP_SOLVERS = [None, "SCIPY", "SCIP"]
MIP_UNSUITABLE = ["CLARABEL"]   # cannot treat integer variables: raising is no claim, a verdict is
LOOSE = {"SCS": 2e-3, "OSQP": 2e-3}


def tiny_cases(tier):
    rows = [(p, b, t) for p in PATTERNS2 for b in RHS for t in TYPES]
    rowsets = [()] + [(r,) for r in rows]
    for r1, r2 in itertools.combinations(rows, 2):
        if r1[0] == r2[0] and r1[1] == r2[1]:
            continue
        if tier == "quick" and (r1[1], r2[1]) not in ((1, 2), (-1, 1), (2, -1), (1, 1), (2, 2)):
            continue
        rowsets.append((r1, r2))
    out = []
    for rs in rowsets:
        for bi, bounds in enumerate(BOUNDS2):
            if bi >= 6 and len(rs) == 2 and tier == "quick":
                continue   # fractional bounds: with at most one row in the quick tier
            for bools in BOOLS2:
                for mv in (MAPVARS if (len(rs) <= 1 or tier == "thorough") else MAPVARS[:1] + MAPVARS[2:3]):
                    if tier == "quick" and len(rs) == 2 and (bi + len(bools)) % 2:
                        continue
                    c = dict(kind="tiny", rows=[list(map(list, [r[0]])) + [r[1], r[2]] for r in rs], bounds=[list(b) for b in bounds],
                             bools=list(bools), mapvar=mv, n=2, ncost=(4 if (tier == "thorough" or len(rs) < 2) else 2))
                    c["key"] = chash(c)
                    out.append(c)
    return out


def make_problem(case, cost):
    from eaopack.optimization import OptimProblem
    import scipy.sparse as sp
    n = case["n"]
    l = np.array([b[0] for b in case["bounds"]], float)
    u = np.array([b[1] for b in case["bounds"]], float)
    c = np.array(cost, float)
    rows = case["rows"]
    if rows:
        A = sp.lil_matrix(np.array([r[0] for r in rows], float))
        b = np.array([r[1] for r in rows], float)
        cType = "".join(r[2] for r in rows)
    else:
        A, b, cType = None, None, None
    idx = list(range(n))
    flags = [j in case["bools"] for j in idx]
    mv = case["mapvar"]
    if mv == "reversed":
        order = idx[::-1]
    elif mv == "duplicated":
        order = idx + idx
    elif mv == "missing0":
        order = [j for j in idx if j != 0 or flags[0]]  # a variable without a mapping row cannot carry a flag
        if 0 not in order:
            pass
    else:
        order = idx
    m = pd.DataFrame(dict(asset=["a"] * len(order), node=["n"] * len(order), type=["i"] * len(order),
                          time_step=[0] * len(order), var_name=["v%d" % j for j in order]), index=order)
    if any(flags):
        m["bool"] = [flags[j] for j in order]
    return OptimProblem(c=c, l=l, u=u, A=A, b=b, cType=cType, mapping=m)


def check_result(res, c, l, u, A, b, types, bools, exact, tol, label, tags, ctag):
    """oracle for one optimize() outcome. exact: None if infeasible else (value, x) as floats"""
    V = []
    if isinstance(res, str):
        if res == "inaccurate":
            return V, "inaccurate"
        if exact is not None:
            V.append(viol("c03.false_failure", "%s reports %r but the problem has a feasible point (exact optimum %.6f at %s)"
                          % (label, res, exact[0], exact[1]), tags, ctag + ["false_failure"]))
        return V, "failure"
    x = np.asarray(res.x, float)
    if exact is None:
        V.append(viol("c03.false_success", "%s reports success (x=%s) but the problem has no feasible point" % (label, x), tags, ctag + ["false_success"]))
        return V, "success"
    scale = 1.0 + max(np.abs(l).max(), np.abs(u).max())
    if (x < l - tol * scale).any() or (x > u + tol * scale).any():
        V.append(viol("c03.bounds", "%s: x=%s violates bounds [%s, %s]" % (label, x, l, u), tags, ctag + ["bounds"]))
    for i, t in enumerate(types or ""):
        s = float(np.dot(A[i], x))
        bad = (t == "U" and s > b[i] + tol * scale) or (t == "L" and s < b[i] - tol * scale) or (t in "SN" and abs(s - b[i]) > tol * scale)
        if bad:
            V.append(viol("c03.row", "%s: row %d (%s) of type %s: A.x = %.6f, b = %.6f" % (label, i, A[i], t, s, b[i]), tags, ctag + ["row:" + t]))
            break
    for j in bools:
        if min(abs(x[j]), abs(x[j] - 1)) > max(tol, 1e-6) * 10:
            V.append(viol("c03.boolean", "%s: flagged variable %d = %.6f" % (label, j, x[j]), tags, ctag + ["boolean"]))
            break
    if abs(float(res.value) - float(-(c * x).sum())) > tol * (1 + abs(float(res.value))):
        V.append(viol("c03.value", "%s: reported value %.8f, -c.x = %.8f" % (label, res.value, -(c * x).sum()), tags, ctag + ["value"]))
    if float(res.value) < exact[0] - tol * 10 * (1 + abs(exact[0])):
        V.append(viol("c03.suboptimal", "%s: value %.8f, exact optimum %.8f (at %s)" % (label, res.value, exact[0], exact[1]), tags, ctag + ["suboptimal"]))
    return V, "success"


def run_tiny(case):
    res = dict(status="ok", violations=[], counters={})
    V = res["violations"]
    n = case["n"]
    l = np.array([b[0] for b in case["bounds"]], float)
    u = np.array([b[1] for b in case["bounds"]], float)
    rows = case["rows"]
    A = np.array([r[0] for r in rows], float) if rows else np.zeros((0, n))
    b = np.array([r[1] for r in rows], float)
    types = "".join(r[2] for r in rows)
    bools = list(case["bools"])
    tags = ["tiny", "map:" + case["mapvar"], "types:" + "".join(sorted(types)), "bools:%d" % len(bools)]
    outcomes = set()
    any_success = False
    for cost in COSTS2[:case.get("ncost", 4)]:
        c = np.array(cost, float)
        ex = R5.solve([F(str(v)) for v in cost], [F(str(b_[0])) for b_ in case["bounds"]], [F(str(b_[1])) for b_ in case["bounds"]],
                      [[int(a) for a in r] for r in A.tolist()], [F(int(v)) for v in b], types, bools)
        exact = None if ex is None else (float(ex[0]), [float(v) for v in ex[1]])
        solvers = (MIP_SOLVERS + (MIP_UNSUITABLE if cost == COSTS2[0] else [])) if bools else LP_SOLVERS
        for sv in solvers:
            label = "solver=%s cost=%s" % (sv, cost)
            ctag = ["solver:%s" % sv, "mip" if bools else "lp"]
            try:
                op = make_problem(case, cost)
                r = op.optimize() if sv is None else op.optimize(solver=sv)
            except Exception as e:
                res["counters"]["raises:%s" % type(e).__name__] = res["counters"].get("raises:%s" % type(e).__name__, 0) + 1
                if exact is not None and not (bools and sv in MIP_UNSUITABLE):
                    V.append(viol("c03.raises", "%s raises %s on a feasible problem" % (label, short_exc(e)), tags + ctag, ctag + ["raises", type(e).__name__]))
                continue
            vv, oc = check_result(r, c, l, u, A, b, types, bools, exact, LOOSE.get(sv, 1e-6), label, tags + ctag, ctag)
            V += vv
            outcomes.add(oc)
            any_success = any_success or oc == "success"
            res["counters"]["solves"] = res["counters"].get("solves", 0) + 1
        # history: a soft (relaxed) solve first must not change what the next normal solve returns
        if bools:
            try:
                op = make_problem(case, cost)
                op.optimize(solver="SCIPY", make_soft_problem=True)
                r = op.optimize(solver="SCIPY")
                vv, oc = check_result(r, c, l, u, A, b, types, bools, exact, 1e-6, "second call after make_soft_problem, cost=%s" % (cost,),
                                      tags + ["after_soft"], ["after_soft", "mip"])
                V += vv
            except Exception as e:
                if exact is not None:
                    V.append(viol("c03.raises", "second call after make_soft_problem raises %s" % short_exc(e), tags, ["after_soft", "raises"]))
    res["nontrivial"] = any_success
    res["outcome"] = ",".join(sorted(outcomes))
    res["fingerprint"] = res["outcome"]
    return res


# ------------------------------------------------------------------------------ family 2
FEATS2 = dict(grids=["4x6h", "5xh"], price_pairs=S.PRICE_PAIRS[:1], bases=["one", "two"], extras=["mc", "ob", "plant", "dem"],
              modes=["mono", "split:12h"], caps=1, extra_costs=1, takes=1, sto_eff=1, sto_inflow=1, sto_levels=1,
              sto_mip=[6.0], tr_eff=1, tr_takes=1, ob_full=1, uc_times=1, uc_costs=1, uc_ramp=1)


def assembled_cases(tier):
    K = 1 if tier == "quick" else 2
    cases, st = explore_e1(lambda ch: S.gen_portfolio(ch, FEATS2), K)
    for c in cases:
        c["kind"] = "assembled"
    # MIPs with an integrality gap (a block unit larger than what the market can absorb), mono and split
    for mode in ("mono", "split:12h"):
        for block in (10.0, 8.0):
            gj = dict(S.GRIDS["4x6h"])
            g = Grid.from_json(gj)
            scn = dict(grid=gj, prices=dict(p=[1.0, 9.0, 2.0, 8.0], fuelc=[4.0] * 4), mode=mode,
                       assets=[dict(type="SimpleContract", name="mkt", nodes=["n1"], price="p", min_cap=S.r(-5.0, g), max_cap=S.r(5.0, g)),
                               dict(type="Plant", name="pl", nodes=["n1"], price="fuelc", min_cap=S.r(block, g), max_cap=S.r(block, g))])
            c = dict(kind="assembled", scenario=scn, family="gap", deviations=[["block", block], ["mode", mode]], choices=[], cost=0)
            c["key"] = chash(scn)
            cases.append(c)
    return cases, st


def run_assembled(case):
    from mc import impl
    scn = case["scenario"]
    res = dict(status="ok", violations=[], counters={})
    V = res["violations"]
    tags = S.feature_tags(scn) + ["assembled"]
    try:
        portf, tg, prices, op = impl.setup(scn)
    except Exception as e:
        res.update(status="skip", validated=False, outcome="setup_raises")
        return res
    parts = op.ops if hasattr(op, "ops") else [op]
    exacts = []
    is_mip = False
    for p in parts:
        arr = impl.problem_arrays(p)
        integ = bool_vars(p)
        is_mip = is_mip or bool(integ)
        st, x, val = solve_arrays(arr["c"], arr["l"], arr["u"], arr["A"], arr["b"], arr["cType"], integ)
        exacts.append((st, val, arr, integ))
    feasible_all = all(e[0] == "optimal" for e in exacts)
    total = sum(e[1] for e in exacts) if feasible_all else None
    outcomes = set()
    for sv in (MIP_SOLVERS if is_mip else LP_SOLVERS[:3]):
        ctag = ["solver:%s" % sv, "mip" if is_mip else "lp", "split" if len(parts) > 1 or hasattr(op, "ops") else "mono"]
        try:
            portf2, tg2, prices2, op2 = impl.setup(scn)
            r = op2.optimize() if sv is None else op2.optimize(solver=sv)
        except Exception as e:
            res["counters"]["raises"] = res["counters"].get("raises", 0) + 1
            if feasible_all:
                V.append(viol("c03.raises", "solver=%s raises %s on a feasible assembled problem" % (sv, short_exc(e)), tags + ctag, ctag + ["raises"]))
            continue
        if isinstance(r, str):
            outcomes.add(r)
            if r != "inaccurate" and feasible_all:
                V.append(viol("c03.false_failure", "solver=%s reports %r, HiGHS on the raw arrays finds value %.6f" % (sv, r, total), tags + ctag, ctag + ["false_failure"]))
            continue
        outcomes.add("success")
        if not feasible_all:
            V.append(viol("c03.false_success", "solver=%s reports success but an interval problem is %s" % (sv, [e[0] for e in exacts]), tags + ctag, ctag + ["false_success"]))
            continue
        x = np.asarray(r.x, float)
        tol = 1e-5
        off = 0
        for (st, val, arr, integ) in exacts:
            nn = len(arr["c"])
            xs = x[off:off + nn]
            off += nn
            scale = 1.0 + max(np.abs(arr["l"]).max(initial=0), np.abs(arr["u"]).max(initial=0))
            if (xs < arr["l"] - tol * scale).any() or (xs > arr["u"] + tol * scale).any():
                V.append(viol("c03.bounds", "solver=%s: returned x violates bounds" % sv, tags + ctag, ctag + ["bounds"]))
            if arr["A"] is not None and arr["A"].shape[0]:
                s = arr["A"] @ xs
                for i, t in enumerate(arr["cType"]):
                    bad = (t == "U" and s[i] > arr["b"][i] + tol * scale) or (t == "L" and s[i] < arr["b"][i] - tol * scale) or \
                          (t in "SN" and abs(s[i] - arr["b"][i]) > tol * scale)
                    if bad:
                        V.append(viol("c03.row", "solver=%s: row %d of type %s: A.x = %.6f, b = %.6f" % (sv, i, t, s[i], arr["b"][i]), tags + ctag, ctag + ["row:" + t]))
                        break
            for j in integ:
                if min(abs(xs[j]), abs(xs[j] - 1)) > 1e-5:
                    V.append(viol("c03.boolean", "solver=%s: flagged variable %d = %.6f" % (sv, j, xs[j]), tags + ctag, ctag + ["boolean"]))
                    break
        if off != len(x):
            V.append(viol("c03.length", "solver=%s: x has %d entries, the interval problems have %d variables" % (sv, len(x), off), tags + ctag, ctag + ["length"]))
        cc = np.concatenate([e[2]["c"] for e in exacts])
        if len(cc) == len(x) and abs(float(r.value) + float((cc * x).sum())) > 1e-5 * (1 + abs(float(r.value))):
            V.append(viol("c03.value", "solver=%s: reported value %.8f, -c.x = %.8f" % (sv, r.value, -(cc * x).sum()), tags + ctag, ctag + ["value"]))
        if float(r.value) < total - 1e-5 * (1 + abs(total)):
            V.append(viol("c03.suboptimal", "solver=%s: value %.8f, HiGHS optimum %.8f" % (sv, r.value, total), tags + ctag, ctag + ["suboptimal"]))
        res["counters"]["solves"] = res["counters"].get("solves", 0) + 1
    if is_mip and feasible_all:
        relax = [solve_arrays(e[2]["c"], e[2]["l"], e[2]["u"], e[2]["A"], e[2]["b"], e[2]["cType"], None) for e in exacts]
        if all(r_[0] == "optimal" for r_ in relax):
            rtot = sum(r_[2] for r_ in relax)
            ctag = ["soft", "split" if hasattr(op, "ops") else "mono"]
            try:
                portf3, tg3, prices3, op3 = impl.setup(scn)
                rs = op3.optimize(solver="SCIPY", make_soft_problem=True)
                if isinstance(rs, str):
                    if rs != "inaccurate":
                        V.append(viol("c03.false_failure", "make_soft_problem=True reports %r, the relaxation has optimum %.6f" % (rs, rtot), tags + ctag, ctag + ["false_failure"]))
                elif abs(float(rs.value) - rtot) > 1e-5 * (1 + abs(rtot)):
                    V.append(viol("c03.soft", "make_soft_problem=True: value %.8f, optimum of the problem without the boolean flags %.8f (MIP optimum %.8f)"
                                  % (rs.value, rtot, total), tags + ctag, ctag))
                res["counters"]["soft_checked"] = 1
                if rtot > total + 1e-6:
                    res["counters"]["soft_with_gap"] = 1
            except Exception as e:
                V.append(viol("c03.raises", "make_soft_problem=True raises %s on a feasible assembled problem" % short_exc(e), tags + ctag, ctag + ["raises"]))
    res["nontrivial"] = "success" in outcomes
    res["outcome"] = "asm:" + ",".join(sorted(outcomes))
    res["fingerprint"] = res["outcome"] + str(None if total is None else round(total, 5))
    return res


SCALES = [1e-4, 1e-2, 1.0, 1e2, 1e4]
SCALED_ROWS = [[[[1, 1], 2, "U"]], [[[1, -1], 1, "S"]], [[[1, 1], 2, "U"], [[1, -1], -1, "L"]], [[[1, 0], 1, "L"], [[1, 1], 2, "S"]],
               [[[1, 1], 2, "N"], [[1, 0], 1, "U"]]]


def scaled_cases(tier):
    """badly scaled variants of tiny problems (variable j measured in units of s_j): exercises the 'inaccurate' branch"""
    out = []
    for s0, s1 in __import__("itertools").product(SCALES, repeat=2):
        if s0 == s1 == 1.0:
            continue
        for rows in SCALED_ROWS:
            c = dict(kind="scaled", rows=rows, scale=[s0, s1], bounds=[[0, 2], [0, 3]], n=2)
            c["key"] = chash(c)
            out.append(c)
    return out


def run_scaled(case):
    from eaopack.optimization import OptimProblem
    import scipy.sparse as sp
    res = dict(status="ok", violations=[], counters={})
    V = res["violations"]
    sc = [F(str(x)) if x >= 1 else 1 / F(str(int(round(1 / x)))) for x in case["scale"]]
    scf = np.array([float(x) for x in sc])
    rows = case["rows"]
    types = "".join(r[2] for r in rows)
    A_ex = [[F(a) * sc[j] for j, a in enumerate(r[0])] for r in rows]
    b_ex = [F(r[1]) for r in rows]
    l_ex = [F(bd[0]) / sc[j] for j, bd in enumerate(case["bounds"])]
    u_ex = [F(bd[1]) / sc[j] for j, bd in enumerate(case["bounds"])]
    tags = ["scaled", "types:" + "".join(sorted(types))]
    outcomes = set()
    any_success = False
    for cost in COSTS2[:3]:
        c_ex = [F(str(v)) * sc[j] for j, v in enumerate(cost)]
        ex = R5.solve(c_ex, l_ex, u_ex, A_ex, b_ex, types, [])
        exact = None if ex is None else (float(ex[0]), [float(v) for v in ex[1]])
        A = np.array([[float(a) for a in r] for r in A_ex])
        b = np.array([float(x) for x in b_ex])
        l = np.array([float(x) for x in l_ex])
        u = np.array([float(x) for x in u_ex])
        c = np.array([float(x) for x in c_ex])
        for sv in (None, "CLARABEL", "SCS", "SCIPY"):
            label = "scaled %s solver=%s cost=%s" % (case["scale"], sv, cost)
            ctag = ["solver:%s" % sv, "scaled"]
            m = pd.DataFrame(dict(asset=["a"] * 2, node=["n"] * 2, type=["i"] * 2, time_step=[0, 0], var_name=["v0", "v1"]), index=[0, 1])
            try:
                op = OptimProblem(c=c.copy(), l=l.copy(), u=u.copy(), A=sp.lil_matrix(A), b=b.copy(), cType=types, mapping=m)
                r = op.optimize() if sv is None else op.optimize(solver=sv)
            except Exception as e:
                res["counters"]["raises:%s" % type(e).__name__] = res["counters"].get("raises:%s" % type(e).__name__, 0) + 1
                if exact is not None:
                    V.append(viol("c03.raises", "%s raises %s on a feasible problem" % (label, short_exc(e)), tags + ctag, ctag + ["raises", type(e).__name__]))
                continue
            # status handling: what cvxpy itself reports for the identical model decides which kind of answer is due
            st_direct = direct_status(c, l, u, A, b, types, sv)
            res["counters"]["cvxpy_status:" + str(st_direct)] = res["counters"].get("cvxpy_status:" + str(st_direct), 0) + 1
            kind = "solution" if not isinstance(r, str) else r
            due = "solution" if st_direct == "optimal" else ("inaccurate" if st_direct == "optimal_inaccurate" else "failure")
            if (due == "solution") != (kind == "solution") or (due == "inaccurate") != (kind == "inaccurate"):
                V.append(viol("c03.status", "%s: cvxpy status %r, optimize() returns %s" % (label, st_direct, "a solution" if kind == "solution" else repr(kind)),
                              tags + ctag, ctag + ["status", str(st_direct)]))
            if sv == "SCS":
                # a first-order solver on a badly scaled problem: only the status handling is judged, not SCS's accuracy
                outcomes.add("success" if kind == "solution" else "inaccurate" if kind == "inaccurate" else "failure")
                any_success = any_success or kind == "solution"
                res["counters"]["solves"] = res["counters"].get("solves", 0) + 1
                continue
            # the problem is equivalent to a well scaled one: check in scaled (unit) coordinates, with a loose tolerance
            if not isinstance(r, str):
                xs = np.asarray(r.x, float) * scfrac(scf)
                class _R:  # result in unit coordinates
                    pass
                rr = _R()
                rr.x, rr.value = xs, r.value
                cu = np.array(cost, float)
                Au = np.array([r_[0] for r_ in rows], float)
                lu = np.array([bd[0] for bd in case["bounds"]], float)
                uu = np.array([bd[1] for bd in case["bounds"]], float)
                vv, oc = check_result(rr, cu, lu, uu, Au, b, types, [], exact if exact is None else (exact[0], None), 1e-4, label, tags + ctag, ctag)
            else:
                vv, oc = check_result(r, c, l, u, A, b, types, [], exact, 1e-4, label, tags + ctag, ctag)
            V += vv
            outcomes.add(oc)
            any_success = any_success or oc == "success"
            res["counters"]["solves"] = res["counters"].get("solves", 0) + 1
            res["counters"]["outcome:" + oc] = res["counters"].get("outcome:" + oc, 0) + 1
    res["nontrivial"] = any_success
    res["outcome"] = "scaled:" + ",".join(sorted(outcomes))
    res["fingerprint"] = res["outcome"]
    return res


def scfrac(scf):
    return scf


def direct_status(c, l, u, A, b, types, solver):
    """status cvxpy reports for the same model (bounds, rows by type, maximise -c.x) with the same solver"""
    import cvxpy as CVX
    import io
    import contextlib
    x = CVX.Variable(len(c))
    cons = [x <= u, x >= l]
    for t in "ULSN":
        idx = [i for i, tt in enumerate(types) if tt == t]
        if idx:
            e = A[idx, :] @ x
            cons.append(e <= b[idx] if t == "U" else e >= b[idx] if t == "L" else e == b[idx])
    prob = CVX.Problem(CVX.Maximize(-c.T @ x), cons)
    try:
        with contextlib.redirect_stdout(io.StringIO()):
            if solver is None:
                prob.solve()
            else:
                prob.solve(solver=getattr(CVX, solver))
        return prob.status
    except Exception as e:
        return "exception:" + type(e).__name__


# ------------------------------------------------------------------------------ family 4: tiny split problems
# every sequence of <= 3 (thorough 4) one-variable intervals from a menu that contains an infeasible one: a split problem succeeds
# only if EVERY interval has a feasible point, and then returns the concatenation of the interval optima
SPLIT_MENU = {  # name: (cost, l, u, row coefficient, rhs, type, exact x or None)
    "maxL": (-1.0, 0.0, 1.0, 1.0, 0.5, "L", 1.0),
    "infL": (-1.0, 0.0, 1.0, 1.0, 2.0, "L", None),
    "capU": (-2.0, 0.0, 1.0, 1.0, 0.5, "U", 0.5),
    "eqS": (1.0, 0.0, 1.0, 1.0, 0.25, "S", 0.25),
    "infS": (1.0, 0.0, 1.0, 1.0, -0.5, "S", None),
}


def split_cases(tier):
    out = []
    names = sorted(SPLIT_MENU)
    for k in range(1, (3 if tier == "quick" else 4) + 1):
        for seq in itertools.product(names, repeat=k):
            c = dict(kind="tinysplit", seq=list(seq))
            c["key"] = chash(c)
            out.append(c)
    return out


def run_tinysplit(case):
    import scipy.sparse as sps
    from eaopack.optimization import OptimProblem, SplitOptimProblem
    res = dict(status="ok", violations=[], counters={})
    V = res["violations"]
    seq = case["seq"]
    feasible = all(SPLIT_MENU[k][6] is not None for k in seq)
    tags = ["tinysplit", "intervals:%d" % len(seq), "feasible" if feasible else "infeasible_interval:%d" % [SPLIT_MENU[k][6] is None for k in seq].index(True)]
    outcomes = set()
    for sv in (None, "SCIPY", "CLARABEL"):
        ctag = ["solver:%s" % sv, "lp", "split"]
        ops = []
        for t, k in enumerate(seq):
            co, lo, up, a, rhs, ty, _ = SPLIT_MENU[k]
            m = pd.DataFrame({"asset": ["a"], "node": ["n"], "type": ["d"], "time_step": [t], "var_name": ["disp"]})
            ops.append(OptimProblem(c=np.array([co]), l=np.array([lo]), u=np.array([up]), A=sps.lil_matrix(np.array([[a]])), b=np.array([rhs]), cType=ty, mapping=m))
        mapping = pd.concat([o.mapping for o in ops], ignore_index=True)
        try:
            sp = SplitOptimProblem(ops, mapping)
            r = sp.optimize() if sv is None else sp.optimize(solver=sv)
        except Exception as e:
            if feasible:
                V.append(viol("c03.raises", "split problem %s solver=%s raises %s on a feasible problem" % (seq, sv, short_exc(e)), tags + ctag, ctag + ["raises", type(e).__name__]))
            res["counters"]["split_raises"] = res["counters"].get("split_raises", 0) + 1
            continue
        res["counters"]["split_solves"] = res["counters"].get("split_solves", 0) + 1
        if isinstance(r, str):
            outcomes.add("failure")
            if feasible:
                V.append(viol("c03.false_failure", "split problem %s solver=%s reports %r although every interval is feasible" % (seq, sv, r), tags + ctag, ctag + ["false_failure"]))
            continue
        outcomes.add("success")
        if not feasible:
            V.append(viol("c03.false_success", "split problem %s solver=%s reports success (value %s, %d values) although an interval has no feasible point"
                          % (seq, sv, getattr(r, "value", None), len(np.atleast_1d(r.x))), tags + ctag, ctag + ["false_success"]))
            continue
        xe = np.array([SPLIT_MENU[k][6] for k in seq], float)
        ce = np.array([SPLIT_MENU[k][0] for k in seq], float)
        x = np.atleast_1d(np.asarray(r.x, float))
        if x.shape != xe.shape or not np.allclose(x, xe, atol=1e-5):
            V.append(viol("c03.split_x", "split problem %s solver=%s returns x=%s, interval optima %s" % (seq, sv, np.round(x, 6).tolist(), xe.tolist()), tags + ctag, ctag + ["split_x"]))
        elif abs(float(r.value) + float(ce @ xe)) > 1e-5:
            V.append(viol("c03.value", "split problem %s solver=%s reports value %s, -c.x = %s" % (seq, sv, r.value, -float(ce @ xe)), tags + ctag, ctag + ["split_value"]))
    res["nontrivial"] = True
    res["outcome"] = ",".join(sorted(outcomes))
    res["fingerprint"] = res["outcome"]
    return res


def build_cases(tier):
    tiny = tiny_cases(tier) + scaled_cases(tier) + split_cases(tier)
    asm, st = assembled_cases(tier)
    stats = dict(explorer="E3 product (tiny problems) + E1 (assembled problems)", states=len(tiny) + len(asm),
                 transitions=len(tiny) * len(COSTS2) * 4 + st["transitions"],
                 bound=dict(n=2, max_rows=2, tiny_problems=len(tiny) * len(COSTS2), assembled=len(asm), K_assembled=st["bound_K"]))
    return tiny + asm, stats


def run_case(case):
    if case.get("kind") == "tiny":
        return run_tiny(case)
    if case.get("kind") == "scaled":
        return run_scaled(case)
    if case.get("kind") == "tinysplit":
        return run_tinysplit(case)
    return run_assembled(case)
