"""C08 - only what lies inside the horizon and inside an asset's window matters.

E3: 8 instants around the horizon (two before, start, a grid point inside, an instant between
grid points, another grid point, end, two after) give 28 half-open intervals [s, e); each is used
as (a) the window of an asset of every type, (b) the delivery window of an order, (c) a take
period, inside base portfolios, with the element at every position of the asset list.
"""
import copy
import itertools
import numpy as np

from mc import scenario as S
from mc.explore import chash
from ref.grid import Grid, parse_instant
from ref import lp as R2
from .common import viol, ImplRun, close, asset_nodes

PROPERTY = "C08"
RULE = ("E3: all 36 half-open intervals over 9 instants around the horizon x element kinds (window of contract / take contract / "
        "storage / block storage / transport / extended transport / multi-commodity / plant / CHP / scaled / structured asset; "
        "order; min-take and max-take period, alone and next to a second period of the same kind inside the horizon) x base portfolios x list positions x grids; distinct = canonical case; "
        "non-trivial = the base portfolio has non-zero dispatch and the run completed")
ASSUMPTIONS = ["a window [s,e) selects the grid points t with s <= t < e (documented rule), clipped to the horizon",
               "equivalence 'with vs. without an out-of-horizon element' is decided on the optimal value and, where R2 models the "
               "portfolio, by plugging the dispatch of the run with the element into the reference model without it",
               "take prorating: volume * (sum of covered step lengths) / (period length), periods on grid instants"]
EXPLANATION = "full product of placements x element kinds; differential oracle (with / without the element) and window predicate"
MIN_NONTRIVIAL_FRACTION = 0.5
MAX_S = {"quick": 900, "thorough": 7200}

KINDS_WINDOW = ["contract", "take_contract", "storage", "block_storage", "transport", "ext_transport", "multicommodity",
                "plant", "chp", "scaled", "structured", "coarse_contract", "coarse_storage", "coarse_transport",
                "scaled_base_only", "scaled_storage", "structured_inner"]
KINDS_OTHER = ["order", "min_take", "max_take", "min_take2", "max_take2"]   # ...2: plus a second period of the same kind inside the horizon (may overlap)


def instants(g):
    T = g.T
    return [("before", 2), ("before", 1), ("gp", 0), ("gp", 1), ("mid", 1), ("gp", T - 1), ("gp", T), ("after", 1), ("after", 2)]


def base_assets(g, base):
    if base == "one":
        return [dict(type="SimpleContract", name="mkt", nodes=["n1"], price="p", min_cap=S.r(-5.0, g), max_cap=S.r(5.0, g)),
                dict(type="Storage", name="sto", nodes=["n1"], size=8.0, cap_in=S.r(1.0, g), cap_out=S.r(2.0, g), start_level=0.0, end_level=0.0),
                dict(type="SimpleContract", name="mk2", nodes=["n2"], price="q", min_cap=S.r(-4.0, g), max_cap=S.r(4.0, g))]
    return [dict(type="SimpleContract", name="mkt", nodes=["n1"], price="p", min_cap=S.r(-5.0, g), max_cap=S.r(5.0, g)),
            dict(type="SimpleContract", name="dem", nodes=["n2"], min_cap=S.r(-1.0, g), max_cap=S.r(-1.0, g)),
            dict(type="Transport", name="link", nodes=["n1", "n2"], min_cap=0.0, max_cap=S.r(3.0, g), efficiency=0.9),
            dict(type="SimpleContract", name="mk2", nodes=["n2"], price="q", min_cap=S.r(-4.0, g), max_cap=S.r(4.0, g))]


def element(g, kind, s, e):
    """the element under test with window / period [s, e) (ISO strings)"""
    w = dict(start=s, end=e)
    if kind == "contract":
        return dict(type="SimpleContract", name="el", nodes=["n1"], price="ec", min_cap=0.0, max_cap=S.r(3.0, g), **w)
    if kind == "take_contract":
        return dict(type="Contract", name="el", nodes=["n1"], price="q", min_cap=0.0, max_cap=S.r(3.0, g),
                    min_take=dict(start=[s], end=[e], values=[6.0]), **w)
    if kind == "coarse_contract":
        return dict(type="SimpleContract", name="el", nodes=["n1"], price="ec", min_cap=0.0, max_cap=S.r(3.0, g), freq="12h", **w)
    if kind == "coarse_storage":
        return dict(type="Storage", name="el", nodes=["n1"], size=6.0, cap_in=S.r(1.0, g), cap_out=S.r(1.0, g), eff_in=0.9, freq="12h", **w)
    if kind == "coarse_transport":
        return dict(type="Transport", name="el", nodes=["n1", "n2"], min_cap=0.0, max_cap=S.r(2.0, g), efficiency=0.95, freq="12h", **w)
    if kind == "storage":
        return dict(type="Storage", name="el", nodes=["n1"], size=6.0, cap_in=S.r(1.0, g), cap_out=S.r(1.0, g), start_level=1.0, end_level=1.0, eff_in=0.9, **w)
    if kind == "block_storage":
        return dict(type="Storage", name="el", nodes=["n1"], size=6.0, cap_in=S.r(1.0, g), cap_out=S.r(1.0, g), start_level=0.0, end_level=0.0, block_size="12h", **w)
    if kind == "transport":
        return dict(type="Transport", name="el", nodes=["n1", "n2"], min_cap=0.0, max_cap=S.r(2.0, g), efficiency=0.95, costs_const=0.05, **w)
    if kind == "ext_transport":
        return dict(type="ExtendedTransport", name="el", nodes=["n1", "n2"], min_cap=0.0, max_cap=S.r(2.0, g),
                    max_take=dict(start=[s], end=[e], values=[9.0]), **w)
    if kind == "multicommodity":
        return dict(type="MultiCommodityContract", name="el", nodes=["n1", "n2"], price="ec", min_cap=0.0, max_cap=S.r(2.0, g),
                    factors_commodities=[1.0, 0.5], **w)
    if kind == "plant":
        return dict(type="Plant", name="el", nodes=["n1"], price="fuelc", min_cap=S.r(1.0, g), max_cap=S.r(4.0, g), start_costs=1.0, **w)
    if kind == "chp":
        return dict(type="CHPAsset", name="el", nodes=["n1", "n2"], price="fuelc", min_cap=S.r(1.0, g), max_cap=S.r(4.0, g),
                    max_share_heat=0.5, **w)
    if kind == "scaled":
        return dict(type="ScaledAsset", name="el", min_scale=0.0, max_scale=2.0, norm_scale=1.0, fix_costs=S.r(0.05, g),
                    base_asset=dict(type="SimpleContract", name="elb", nodes=["n1"], price="ec", min_cap=0.0, max_cap=S.r(2.0, g), **w), **w)
    if kind == "scaled_base_only":   # only the base asset carries the life time
        return dict(type="ScaledAsset", name="el", min_scale=0.0, max_scale=2.0, norm_scale=1.0, fix_costs=0.0,
                    base_asset=dict(type="SimpleContract", name="elb", nodes=["n1"], price="ec", min_cap=0.0, max_cap=S.r(2.0, g), **w))
    if kind == "scaled_storage":
        return dict(type="ScaledAsset", name="el", min_scale=0.0, max_scale=2.0, norm_scale=2.0, fix_costs=S.r(0.01, g),
                    base_asset=dict(type="Storage", name="elb", nodes=["n1"], size=6.0, cap_in=S.r(1.0, g), cap_out=S.r(1.0, g), eff_in=0.9, **w), **w)
    if kind == "structured_inner":   # the life time is given to the inner assets, not to the structured asset
        inner = [dict(type="SimpleContract", name="isup", nodes=["ni"], price="ec", min_cap=0.0, max_cap=S.r(2.0, g), **w),
                 dict(type="Transport", name="itr", nodes=["ni", "n1"], min_cap=0.0, max_cap=S.r(2.0, g), **w)]
        return dict(type="StructuredAsset", name="el", nodes=["n1"], portfolio=inner)
    if kind == "structured":
        inner = [dict(type="SimpleContract", name="isup", nodes=["ni"], price="ec", min_cap=0.0, max_cap=S.r(2.0, g)),
                 dict(type="Transport", name="itr", nodes=["ni", "n1"], min_cap=0.0, max_cap=S.r(2.0, g))]
        return dict(type="StructuredAsset", name="el", nodes=["n1"], portfolio=inner, **w)
    raise ValueError(kind)


def build_cases(tier):
    grids = ["4x6h"] if tier == "quick" else ["4x6h", "3xd_spring", "12h_partial", "4x6h_cet"]
    pairs = S.PRICE_PAIRS[:1] if tier == "quick" else S.PRICE_PAIRS[:3]
    cases = []
    for gname in grids:
        gj = dict(S.GRIDS[gname])
        g = Grid.from_json(gj)
        inst = instants(g)
        iso = []
        for sp in inst:
            x = g.instant_iso(sp)
            if x not in iso:
                iso.append(x)
        order = {x: g.instant(sp) for sp, x in zip(inst, [g.instant_iso(sp) for sp in inst])}
        ivs = [(a, b) for a, b in itertools.combinations(iso, 2) if order[a] < order[b]]
        for pair in pairs:
            for base in ("one", "two"):
                for kind in KINDS_WINDOW + KINDS_OTHER:
                    if kind.startswith("coarse") and g.dt[0] * S.MTU_H[g.mtu] > 12.0:
                        continue   # the coarse kinds use freq 12h: an asset grid finer than the portfolio grid is refused by EAO as documented
                    positions = [0, 1, 99] if tier == "quick" else [0, 1, 2, 99]
                    if kind in ("min_take", "max_take", "min_take2", "max_take2"):
                        positions = [99]
                    for pos in positions:
                        for (s, e) in ivs:
                            c = dict(grid=gname, pair=list(pair), base=base, kind=kind, pos=pos, s=s, e=e)
                            c["key"] = chash(c)
                            cases.append(c)
    stats = dict(explorer="E3 full product", states=len(cases), transitions=len(cases),
                 bound=dict(intervals=36, kinds=len(KINDS_WINDOW + KINDS_OTHER), grids=grids, price_pairs=len(pairs)))
    return cases, stats


def make_scenarios(case):
    gj = dict(S.GRIDS[case["grid"]])
    g = Grid.from_json(gj)
    T = g.T
    prices = S.make_prices(T, tuple(case["pair"]))
    prices["fuelc"] = [2.0] * T
    base = base_assets(g, case["base"])
    kind, s, e = case["kind"], case["s"], case["e"]
    with_ = copy.deepcopy(base)
    if kind in KINDS_WINDOW:
        el = element(g, kind, s, e)
        with_.insert(min(case["pos"], len(with_)), el)
    elif kind == "order":
        # the order under test comes first, followed by an order that lies inside the horizon
        s_in, e_in = g.instant_iso(("gp", 1)), g.instant_iso(("gp", g.T - 1))
        el = dict(type="OrderBook", name="el", nodes=["n1"], orders=dict(start=[s, s_in], end=[e, e_in], capa=[S.r(2.0, g), S.r(1.0, g)], price=[0.5, 1.5]))
        with_.insert(min(case["pos"], len(with_)), el)
    else:
        # take period on the market contract
        mk = with_[0]
        mk["type"] = "Contract"
        vol = 12.0 if kind.startswith("min_take") else -6.0
        mk[kind[:8]] = dict(start=[s], end=[e], values=[vol])
        if kind.endswith("2"):
            s_in, e_in = g.instant_iso(("gp", 1)), g.instant_iso(("gp", g.T - 1))
            mk[kind[:8]] = dict(start=[s, s_in], end=[e, e_in], values=[vol, vol / 2.0])
    scn_with = dict(grid=gj, prices=prices, assets=with_, mode="mono")
    base_wo = copy.deepcopy(base)
    if kind.endswith("take2"):   # "without" keeps the period inside the horizon
        mk2 = base_wo[0]
        mk2["type"] = "Contract"
        mk2[kind[:8]] = dict(start=[s_in], end=[e_in], values=[vol / 2.0])
    if kind == "order":   # "without" keeps the in-horizon order of the book
        el2 = copy.deepcopy(el)
        for key in ("start", "end", "capa", "price"):
            el2["orders"][key] = el2["orders"][key][1:]
        base_wo.insert(min(case["pos"], len(base_wo)), el2)
    scn_without = dict(grid=gj, prices=prices, assets=base_wo, mode="mono")
    if g.tz:
        scn_with["date_tz"] = g.tz
        scn_without["date_tz"] = g.tz
    return g, scn_with, scn_without


def run_case(case):
    g, scn_w, scn_wo = make_scenarios(case)
    kind, s, e = case["kind"], case["s"], case["e"]
    tz = g.tz
    s_, e_ = parse_instant(s, tz), parse_instant(e, tz)
    inside = [t for t in range(g.T) if s_ <= g.points[t] < e_]
    placement = "empty" if not inside else ("all" if len(inside) == g.T else "partial")
    strad = (s_ < g.start or e_ > g.horizon_end) and bool(inside)
    tags = ["kind:" + kind, "base:" + case["base"], "placement:" + placement] + (["straddling"] if strad else []) + \
           (["pos:last"] if case["pos"] == 99 else ["pos:%d" % case["pos"]])
    ctag = ["kind:" + kind, "placement:" + placement]
    res = dict(status="ok", violations=[], counters={})
    V = res["violations"]
    run = ImplRun(scn_w, solver="SCIPY")
    res["fingerprint"] = "%s|%s" % (run.status, None if run.value is None else round(run.value, 6))
    res["outcome"] = "%s:%s" % (placement, run.status)
    if run.status == "exception":
        res["counters"]["impl_error@%s" % run.site] = 1
        V.append(viol("c08.raises", "%s with window/period [%s, %s) (%s): %s at %s (stage %s)" % (kind, s, e, placement, run.error, run.site, run.stage),
                      tags + ["site:%s" % run.site], ctag + ["site:%s" % run.site]))
        return res
    if run.status != "optimal":
        res["counters"]["not_optimal_" + placement] = 1
        if placement == "empty" and ImplRun(scn_wo, solver="SCIPY", want_output=False).status == "optimal":
            V.append(viol("c08.inert", "%s lying outside the horizon makes the problem %s" % (kind, run.status), tags, ctag))
        else:
            res["status"] = "skip"
            res["validated"] = False
        return res
    tab, nodes = run.table()
    T = g.T
    # (i) dispatched only inside window & horizon
    if kind in KINDS_WINDOW:
        for (a, n), arr in tab.items():
            if a != "el":
                continue
            bad = [t for t in range(T) if t not in inside and abs(arr[t]) > 1e-7]
            if bad:
                V.append(viol("c08.outside_window", "%s with window [%s, %s) = steps %s dispatches %.6f at node %s in step %d"
                              % (kind, s, e, inside, arr[bad[0]], n, bad[0]), tags, ctag))
                break
    # (i') where R2 models the portfolio: the value is the reference value for EVERY placement (clipped windows, partly
    #      covered coarse steps, prorated takes)
    try:
        if kind == "block_storage":
            raise R2.Unsupported("time blocks are judged by C05 (known finding D7b, block boundaries inside steps undefined)")
        refm = R2.RefModel(scn_w)
        rst, rval = refm.optimum()
        if rst == "optimal" and not close(run.value, rval):
            V.append(viol("c08.value", "%s with window/period [%s, %s) (%s): value %.8f, textbook model with the clipped window %.8f"
                          % (kind, s, e, placement, run.value, rval), tags, ctag))
        res["counters"]["ref_value_checked"] = 1
    except R2.Unsupported:
        pass
    # (ii) element without a grid point in the horizon is inert
    if placement == "empty":
        run2 = ImplRun(scn_wo, solver="SCIPY")
        if run2.status != "optimal":
            res["status"] = "skip"
            return res
        if not close(run.value, run2.value):
            V.append(viol("c08.inert", "%s with window/period [%s, %s) outside the horizon changes the value: %.8f with, %.8f without"
                          % (kind, s, e, run.value, run2.value), tags, ctag))
        else:
            try:
                ref = R2.RefModel(scn_wo)
                tab_o = {k: v for k, v in tab.items() if k[0] != "el" or kind == "order"}   # (the book stays, with its in-horizon order)
                pst, pval = ref.plug_in(tab_o)
                if pst != "optimal" or not close(pval, run2.value, abs_=1e-7 + ref.pin_slack):
                    V.append(viol("c08.inert", "with the out-of-horizon %s the other assets' dispatch is not an optimum of the portfolio without it (%s, %s vs %s)"
                                  % (kind, pst, pval, run2.value), tags, ctag + ["dispatch"]))
                res["counters"]["inert_plugin"] = 1
            except R2.Unsupported:
                pass
        res["counters"]["inert_checked"] = 1
    # (iii) straddling take period == clipped period with prorated volume
    if kind in ("min_take", "max_take") and strad:
        cs = max(s_, g.start)
        ce = min(e_, g.horizon_end)
        covered = sum(g.dt[t] for t in inside)
        total = (e_ - s_).total_seconds() / {"h": 3600.0, "d": 86400.0, "min": 60.0}[g.mtu]
        scn3 = copy.deepcopy(scn_w)
        mk = scn3["assets"][0]
        vol = mk[kind]["values"][0]
        # clipped to the covered steps: from the first covered grid point to the end of the last covered step
        cs_iso = g.iso(g.points[inside[0]])
        ce_iso = g.iso(g.all_points[inside[-1] + 1])
        mk[kind] = dict(start=[cs_iso], end=[ce_iso], values=[vol * covered / total])
        run3 = ImplRun(scn3, solver="SCIPY", want_output=False)
        if run3.status != "optimal" or not close(run3.value, run.value):
            V.append(viol("c08.prorate", "%s of %.3f over [%s, %s) gives %.8f; the clipped period [%s, %s) with prorated volume %.6f gives %s"
                          % (kind, vol, s, e, run.value, cs_iso, ce_iso, vol * covered / total,
                             run3.value if run3.status == "optimal" else run3.status), tags, ctag))
        res["counters"]["prorate_checked"] = 1
    res["nontrivial"] = bool(sum(float(np.abs(v).sum()) for v in tab.values()) > 1e-6)
    return res
