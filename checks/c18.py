"""C18 - reported nodal prices are marginal values (supergradients) of the optimum."""
import copy
import numpy as np

from mc import scenario as S
from ref.grid import Grid
from .common import viol, merge_cases, family, ImplRun, close, asset_nodes
from . import c07

PROPERTY = "C18"
RULE = ("E1 x E3: LP portfolios (contracts, storages, transports with efficiency, multi-commodity, order book, windows so that nodes lack "
        "dispatch at some steps, coarse / periodic assets, structured wrappers, mono and split mode, hourly steps across the autumn clock change, a penalty contract with a cost coefficient of 1e6, split runs of a structured asset whose internal part is active before any portfolio node) with <= K deviations; for each "
        "portfolio EVERY (node, step) with a reported price and BOTH signs of a small injection; distinct = canonical scenario; "
        "non-trivial = optimal with prices reported and at least one perturbation changing the value")
ASSUMPTIONS = ["an injection d at (node, step) is realised by an extra must-run contract delivering d in that step only; the re-optimised value "
               "V(d) comes from the real code (HiGHS); V(d) <= V(0) + price*d + 1e-6*(1+|V|) holds for ANY optimal dual, so degeneracy cannot "
               "raise a false alarm; an infeasible perturbation satisfies the inequality",
               "d = +-0.05 volume units"]
EXPLANATION = "bounded exhaustive scenario enumeration x all (node, step, sign) perturbations; supergradient inequality on every one"
MIN_NONTRIVIAL_FRACTION = 0.3
MAX_S = {"quick": 900, "thorough": 7200}

FEATS = dict(grids=["4x6h", "3xd_spring", "12h_partial", "4x6h_d", "7xh_autumn"], price_pairs=S.PRICE_PAIRS[:1], bases=["one", "two"],
             extras=["mc", "ob", "dem", "slack"], modes=["mono", "split:12h"],
             caps=1, extra_costs=1, window=1, takes=1, freq=["12h"], periodicity=[("12h", None)],
             sto_eff=1, sto_inflow=1, sto_levels=1, sto_two_nodes=1, tr_dir=1, tr_eff=1, tr_costs=1, mc_factors=1, wacc=1)
D = 0.05


def gen_struct_split(ch):
    """split optimisation of a structured asset whose internal part is active before anything touches a node of the portfolio"""
    gj = dict(S.GRIDS["8x6h"])
    g = Grid.from_json(gj)
    T = g.T
    prices = S.make_prices(T, S.PRICE_PAIRS[0])
    k = ch.free("outer_start", [2, 4, 0])      # grid point at which the link to the outside and all outer assets begin
    late = g.instant_iso(("gp", k)) if k else None
    inner = [dict(type="Storage", name="isto", nodes=["ni"], size=6.0, cap_in=1.0, cap_out=1.0, start_level=0.0, end_level=0.0),
             dict(type="SimpleContract", name="icon", nodes=["ni"], price="ec", min_cap=0.0, max_cap=1.0),
             dict(type="Transport", name="itr", nodes=["ni", "n1"], min_cap=-2.0, max_cap=2.0, efficiency=ch.pick("itr.eff", [1.0, 0.9]))]
    if late:
        inner[2]["start"] = late
    if ch.pick("second_internal_node", [False, True]):
        inner.append(dict(type="Storage", name="isto2", nodes=["nj"], size=2.0, cap_in=0.5, cap_out=0.5, start_level=0.0, end_level=0.0))
        inner.append(dict(type="Transport", name="itr2", nodes=["ni", "nj"], min_cap=-1.0, max_cap=1.0))
    assets = [dict(type="SimpleContract", name="mkt", nodes=["n1"], price="p", min_cap=-5.0, max_cap=5.0),
              dict(type="StructuredAsset", name="st", nodes=["n1"], portfolio=inner)]
    if ch.pick("second_node", [False, True]):
        assets += [dict(type="SimpleContract", name="mk2", nodes=["n2"], price="q", min_cap=-4.0, max_cap=4.0),
                   dict(type="Transport", name="tr", nodes=["n1", "n2"], min_cap=0.0, max_cap=3.0, efficiency=0.8)]
    early = ch.free("inner_active_early", [True, False])   # False: nothing at all is active in the first interval(s)
    if late:
        for a in assets:
            if a["type"] != "StructuredAsset" or not early:
                a["start"] = late
    if ch.free("st.pos", ["last", "first"]) == "first":
        assets.insert(0, assets.pop([a["name"] for a in assets].index("st")))
    return S.finish(gj, assets, prices, mode=ch.free("mode", ["split:12h", "split:d", "mono"]))


def build_cases(tier):
    K = 1 if tier == "quick" else 2
    split = dict(FEATS, grids=["8x6h"], modes=["split:12h", "split:d"], common_window=[8, 1, 9])
    fams = [family("main", lambda ch: S.gen_portfolio(ch, FEATS), K),
            family("split", lambda ch: S.gen_portfolio(ch, split), K),
            family("wrapped", c07.gen_wrapped, K),
            family("struct_split", gen_struct_split, 2)]
    if tier == "quick":
        small = dict(grids=["4x6h"], price_pairs=S.PRICE_PAIRS[:1], bases=["two"], extras=["mc"], modes=["mono"], window=1, sto_eff=1,
                     sto_two_nodes=1, tr_eff=1, tr_dir=1, mc_factors=1, extra_costs=1)
        fams.append(family("main2", lambda ch: S.gen_portfolio(ch, small), 2))
    cases, stats = merge_cases(*fams)
    stats["bound"] = dict(K=K, perturbations="all (node, step) x {+d, -d}")
    return cases, stats


def inject(scn, node, t, d, g):
    s2 = copy.deepcopy(scn)
    rate = d / g.dt[t]
    s2["assets"].append(dict(type="SimpleContract", name="__inj__", nodes=[node],
                             min_cap=dict(start=[g.iso(g.all_points[t])], end=[g.iso(g.all_points[t + 1])], values=[rate]),
                             max_cap=dict(start=[g.iso(g.all_points[t])], end=[g.iso(g.all_points[t + 1])], values=[rate]),
                             start=g.iso(g.all_points[t]), end=g.iso(g.all_points[t + 1])))
    return s2


def run_case(case):
    scn = case["scenario"]
    tags = S.feature_tags(scn)
    res = dict(status="ok", violations=[], counters={})
    V = res["violations"]
    # booleans make the problem a MIP: no duals, no claim
    run = ImplRun(scn, solver="SCIPY")
    res["fingerprint"] = "%s|%s" % (run.status, None if run.value is None else round(run.value, 6))
    res["outcome"] = run.status
    if run.status != "optimal":
        res.update(status="skip", validated=False)
        res["counters"]["impl_%s" % run.status] = 1
        return res
    pr = run.out["prices"]
    cols = [c for c in pr.columns if c.startswith("nodal price: ")] if pr is not None and len(pr.columns) else []
    if not cols:
        res.update(status="skip", validated=False, outcome="no_prices")
        return res
    g = Grid.from_json(scn["grid"])
    V0 = run.value
    tol = 1e-6 * (1 + abs(V0))
    ptags = [t for t in tags if t.startswith("param:") or t.startswith("mode:") or t.startswith("has:Struct")][:4]
    n_checked = n_changed = 0
    for col in cols:
        node = col[len("nodal price: "):]
        for t in range(g.T):
            p = pr[col].iloc[t]
            if p is None or (isinstance(p, float) and np.isnan(p)):
                continue
            p = float(p)
            for d in (D, -D):
                r2 = ImplRun(inject(scn, node, t, d, g), solver="SCIPY", want_output=False)
                n_checked += 1
                if r2.status == "not successful":
                    continue  # infeasible perturbation: V(d) = -inf
                if r2.status != "optimal":
                    res["counters"]["perturbed_%s" % r2.status] = res["counters"].get("perturbed_%s" % r2.status, 0) + 1
                    continue
                if abs(r2.value - V0) > tol:
                    n_changed += 1
                if r2.value > V0 + p * d + tol:
                    V.append(viol("c18.supergradient", "node %s step %d: reported price %.6f; injecting %+.3f gives V = %.8f > V0 + price*d = %.8f (V0 = %.8f; "
                                  "realised slope %.6f)" % (node, t, p, d, r2.value, V0 + p * d, V0, (r2.value - V0) / d), tags, ptags))
                    break
            if V:
                break
        if V:
            break
    res["counters"]["perturbations"] = n_checked
    res["nontrivial"] = bool(n_changed > 0)
    return res
