"""C09 - results do not depend on asset / node names or on the order of assets.

E3: base portfolios x ALL permutations of the asset list x injective renamings of assets and
nodes from adversarial pools (numeric names, prefixes / suffixes of each other, an asset named
like a node, names of different lengths) x grids with T = 4 and T = 12 (per-asset variable
indices >= 10). Every variant is run by the real code and compared with the base run.
"""
import copy
import itertools
import numpy as np

from mc import scenario as S
from mc.explore import chash
from ref.grid import Grid
from ref import lp as R2
from .common import viol, ImplRun, close, asset_nodes

PROPERTY = "C09"
RULE = ("E3: 7 base portfolios (incl. an order book with an order behind the grid) (mixed wacc + two-node storage; transport + spread contract; structured asset with inner assets; "
        "linked plants MIP; assets on the same coarser grid with different wacc; structured asset with own life time over inner assets with own life times, "
        "whose wrapped portfolio is permuted as well) x all permutations x asset-name tuples drawn from the pool {a,1a,11,1,a1,0,a_2,n} x node-name "
        "tuples from {n,1n,n1,1,in,out,hub,hub_south} x grids T=4 and T=12; distinct = canonical variant; non-trivial = base and "
        "variant optimal with non-zero dispatch")
ASSUMPTIONS = ["per-asset dispatch is compared through the plug-in oracle (variant dispatch, relabelled, must be an optimum of the base "
               "reference model) because optimal dispatch need not be unique; per-asset DCF totals are compared with the cash flow "
               "R2 recomputes from that same dispatch",
               "for portfolios R2 does not model (structured, linked MIP) value, and dispatch / DCF where the base optimum is unique "
               "(decided by comparing two solver runs), are compared directly"]
EXPLANATION = "full product of permutations and renamings; differential oracle against the base run + plug-in"
MIN_NONTRIVIAL_FRACTION = 0.5
MAX_S = {"quick": 900, "thorough": 7200}

ASSET_POOL = ["a", "1a", "11", "1", "a1", "0", "a_2", "n"]
NODE_SETS = [None, ("n", "1n", "n1"), ("1", "n", "1n"), ("in", "out", "x"), ("hub", "hub_south", "h"), ("n1", "n", "1")]


def base_portfolio(name, g):
    r = S.r
    if name == "wacc_sto2":
        return [dict(type="SimpleContract", name="A0", nodes=["N0"], price="p", min_cap=r(-5.0, g), max_cap=r(5.0, g)),
                dict(type="SimpleContract", name="A1", nodes=["N0"], price="q", min_cap=0.0, max_cap=r(3.0, g), wacc=0.3),
                dict(type="Storage", name="A2", nodes=["N0", "N1"], size=8.0, cap_in=r(1.0, g), cap_out=r(2.0, g), eff_in=0.9, start_level=0.0, end_level=0.0),
                dict(type="SimpleContract", name="A3", nodes=["N1"], price="q", min_cap=r(-4.0, g), max_cap=r(4.0, g), wacc=0.1)]
    if name == "transport":
        return [dict(type="SimpleContract", name="A0", nodes=["N0"], price="p", min_cap=r(-5.0, g), max_cap=r(5.0, g)),
                dict(type="SimpleContract", name="A1", nodes=["N1"], price="q", min_cap=r(-4.0, g), max_cap=r(4.0, g), extra_costs=0.5),
                dict(type="Transport", name="A2", nodes=["N0", "N1"], min_cap=0.0, max_cap=r(3.0, g), efficiency=0.8, costs_const=0.1),
                dict(type="Storage", name="A3", nodes=["N1"], size=8.0, cap_in=r(1.0, g), cap_out=r(2.0, g), start_level=0.0, end_level=0.0, wacc=0.2)]
    if name == "structured":
        inner = [dict(type="Storage", name="A2", nodes=["N2"], size=6.0, cap_in=r(1.0, g), cap_out=r(1.0, g), start_level=0.0, end_level=0.0),
                 dict(type="Transport", name="A3", nodes=["N2", "N0"], min_cap=r(-2.0, g), max_cap=r(2.0, g))]
        return [dict(type="SimpleContract", name="A0", nodes=["N0"], price="p", min_cap=r(-5.0, g), max_cap=r(5.0, g)),
                dict(type="StructuredAsset", name="A1", nodes=["N0"], portfolio=inner),
                dict(type="SimpleContract", name="A4", nodes=["N0"], price="q", min_cap=0.0, max_cap=r(1.0, g))]
    if name == "coarse_wacc":   # two assets on the same coarser grid of their own (same life time, same freq), discounted differently
        cf = "12h" if g.T <= 4 else "4h"
        return [dict(type="SimpleContract", name="A0", nodes=["N0"], price="p", min_cap=r(-5.0, g), max_cap=r(5.0, g)),
                dict(type="SimpleContract", name="A1", nodes=["N0"], price="q", min_cap=0.0, max_cap=r(3.0, g), freq=cf, wacc=0.6),
                dict(type="SimpleContract", name="A2", nodes=["N0"], price="ec", min_cap=r(-2.0, g), max_cap=0.0, freq=cf),
                dict(type="Storage", name="A3", nodes=["N0"], size=8.0, cap_in=r(1.0, g), cap_out=r(2.0, g), start_level=0.0, end_level=0.0, freq=cf, wacc=0.2, cost_out=0.1)]
    if name == "structured_win":   # a structured asset with a life time of its own over inner assets with and without own life times
        inner = [dict(type="Storage", name="A2", nodes=["N2"], size=6.0, cap_in=r(1.0, g), cap_out=r(1.0, g), start_level=0.0, end_level=0.0,
                      start=g.instant_iso(("gp", 2))),
                 dict(type="Transport", name="A3", nodes=["N2", "N0"], min_cap=r(-2.0, g), max_cap=r(2.0, g)),
                 dict(type="SimpleContract", name="A5", nodes=["N2"], price="ec", min_cap=0.0, max_cap=r(1.0, g), end=g.instant_iso(("gp", g.T - 1)))]
        return [dict(type="SimpleContract", name="A0", nodes=["N0"], price="p", min_cap=r(-5.0, g), max_cap=r(5.0, g)),
                dict(type="StructuredAsset", name="A1", nodes=["N0"], portfolio=inner, start=g.instant_iso(("gp", 1))),
                dict(type="SimpleContract", name="A4", nodes=["N0"], price="q", min_cap=0.0, max_cap=r(1.0, g))]
    if name == "orderbook":   # an order book whose last order lies behind the grid (a variable without any time step)
        ob = dict(type="OrderBook", name="A1", nodes=["N0"],
                  orders=dict(start=[g.instant_iso(("gp", 1)), g.instant_iso(("gp", 0)), g.instant_iso(("after", 1))],
                              end=[g.instant_iso(("gp", g.T - 1)), g.instant_iso(("gp", 2)), g.instant_iso(("after", 3))],
                              capa=[r(2.0, g), r(-1.0, g), r(-2.0, g)], price=[2.5, 4.5, 50.0]))
        return [dict(type="SimpleContract", name="A0", nodes=["N0"], price="p", min_cap=r(-5.0, g), max_cap=r(5.0, g)),
                ob,
                dict(type="Storage", name="A2", nodes=["N0"], size=8.0, cap_in=r(1.0, g), cap_out=r(2.0, g), start_level=0.0, end_level=0.0, cost_in=0.1)]
    if name == "linked":
        p1 = dict(type="Plant", name="A2", nodes=["N0"], price="fuelc", min_cap=r(1.0, g), max_cap=r(4.0, g), start_costs=2.0, time_already_off=10)
        p2 = dict(type="Plant", name="A3", nodes=["N0"], price="ec", min_cap=r(1.0, g), max_cap=r(3.0, g), time_already_off=10)
        return [dict(type="SimpleContract", name="A0", nodes=["N0"], price="p", min_cap=r(-9.0, g), max_cap=r(9.0, g)),
                dict(type="LinkedAsset", name="A1", nodes=["N0"], portfolio=[p1, p2],
                     asset1_variable=["A3", "disp", "N0"], asset2_variable=["A2", "bool_on", None],
                     asset2_time_already_running=0, time_back=1, time_forward=0)]
    raise ValueError(name)


def all_names(assets):
    out = []
    for a in assets:
        out.append(a["name"])
        for x in a.get("portfolio", []):
            out.append(x["name"])
    return out


def all_nodes(assets):
    out = []
    for a in assets:
        for n in a.get("nodes", []):
            if n not in out:
                out.append(n)
        for x in a.get("portfolio", []):
            for n in x.get("nodes", []):
                if n not in out:
                    out.append(n)
    return out


def rename(assets, amap, nmap):
    out = copy.deepcopy(assets)

    def fix(a):
        a["name"] = amap.get(a["name"], a["name"])
        if "nodes" in a:
            a["nodes"] = [nmap.get(n, n) for n in a["nodes"]]
        for key in ("asset1_variable", "asset2_variable"):
            if key in a:
                v = list(a[key])
                v[0] = amap.get(v[0], v[0])
                if v[2] is not None:
                    v[2] = nmap.get(v[2], v[2])
                a[key] = v
        for x in a.get("portfolio", []):
            fix(x)
    for a in out:
        fix(a)
    return out


def build_cases(tier):
    cases = []
    bases = ["wacc_sto2", "transport", "structured", "linked", "coarse_wacc", "structured_win", "orderbook"]
    grids = ["4x6h", "12x2h"]
    for base, gname in itertools.product(bases, grids):
        g = Grid.from_json(S.GRIDS[gname])
        assets = base_portfolio(base, g)
        names = all_names(assets)
        nodes = all_nodes(assets)
        top = len(assets)
        perms = list(itertools.permutations(range(top)))
        k = len(names)
        if tier == "quick":
            name_tuples = [None] + [tuple(ASSET_POOL[(i + j) % len(ASSET_POOL)] for j in range(k)) for i in range(len(ASSET_POOL))] + \
                          [tuple(reversed(ASSET_POOL[:k])), tuple(["a", "1a", "1", "11", "a1", "0"][:k])]
            perm_sel = perms if top <= 3 else [p for i, p in enumerate(perms) if i % 3 == 0 or i == len(perms) - 1]
        else:
            name_tuples = [None] + list(itertools.permutations(ASSET_POOL[:6], k))[::3]
            perm_sel = perms
        seen = set()
        for perm in perm_sel:
            for nt in name_tuples:
                for ns in NODE_SETS:
                    if perm == tuple(range(top)) and nt is None and ns is None:
                        continue
                    # keep the product bounded: full cross only along two axes at a time
                    n_dev = (perm != tuple(range(top))) + (nt is not None) + (ns is not None)
                    if tier == "quick" and n_dev == 3 and (hash((perm, nt, ns)) % 5 != 0):
                        continue
                    c = dict(base=base, grid=gname, perm=list(perm), names=list(nt) if nt else None, nodeset=list(ns) if ns else None)
                    c["key"] = chash(c)
                    if c["key"] not in seen:
                        seen.add(c["key"])
                        cases.append(c)
        if base == "structured_win":   # ... and every order of the wrapped portfolio (top-level order and names as given / one renaming)
            n_in = len([a for a in assets if a["type"] == "StructuredAsset"][0]["portfolio"])
            for ip in itertools.permutations(range(n_in)):
                for perm in (tuple(range(top)), tuple(reversed(range(top)))):
                    for nt in (None, name_tuples[1]):
                        if ip == tuple(range(n_in)):
                            continue
                        c = dict(base=base, grid=gname, perm=list(perm), names=list(nt) if nt else None, nodeset=None, inner_perm=list(ip))
                        c["key"] = chash(c)
                        cases.append(c)
    stats = dict(explorer="E3 product", states=len(cases), transitions=len(cases), bound=dict(bases=bases, grids=grids, tier=tier))
    return cases, stats


def scenarios(case):
    gj = dict(S.GRIDS[case["grid"]])
    g = Grid.from_json(gj)
    prices = S.make_prices(g.T, S.PRICE_PAIRS[0])
    prices["fuelc"] = [2.0] * g.T
    assets = base_portfolio(case["base"], g)
    names = all_names(assets)
    nodes = all_nodes(assets)
    amap = dict(zip(names, case["names"])) if case["names"] else {}
    nmap = dict(zip(nodes, case["nodeset"])) if case["nodeset"] else {}
    var = rename(assets, amap, nmap)
    var = [var[i] for i in case["perm"]]
    if case.get("inner_perm"):
        for a in var:
            if a["type"] == "StructuredAsset":
                a["portfolio"] = [a["portfolio"][i] for i in case["inner_perm"]]
    base_scn = dict(grid=gj, prices=prices, assets=assets, mode="mono")
    var_scn = dict(grid=gj, prices=prices, assets=var, mode="mono")
    return base_scn, var_scn, amap, nmap


def run_case(case):
    base_scn, var_scn, amap, nmap = scenarios(case)
    res = dict(status="ok", violations=[], counters={})
    V = res["violations"]
    tags = ["base:" + case["base"], "grid:" + case["grid"]] + (["permuted"] if case["perm"] != sorted(case["perm"]) else []) + (["inner_permuted"] if case.get("inner_perm") else []) + \
           (["renamed_assets"] if case["names"] else []) + (["renamed_nodes"] if case["nodeset"] else [])
    ctag = [t for t in tags if not t.startswith("grid:")]
    # distinctness of the new names is a precondition of the property
    newnames = [amap.get(n, n) for n in all_names(base_scn["assets"])]
    newnodes = [nmap.get(n, n) for n in all_nodes(base_scn["assets"])]
    if len(set(newnames)) != len(newnames) or len(set(newnodes)) != len(newnodes):
        res.update(status="skip", validated=False)
        return res
    rb = ImplRun(base_scn, solver="SCIPY")
    rv = ImplRun(var_scn, solver="SCIPY")
    res["fingerprint"] = "%s|%s|%s" % (rb.status, rv.status, None if rv.value is None else round(rv.value, 6))
    res["outcome"] = "%s/%s" % (rb.status, rv.status)
    if rb.status != "optimal":
        res.update(status="skip", validated=False)
        res["counters"]["base_%s" % rb.status] = 1
        return res
    if rv.status != "optimal":
        V.append(viol("c09.status", "base portfolio optimal (%.6f); after %s the run gives %s %s %s" % (rb.value, ",".join(ctag[1:]) or "nothing", rv.status, rv.error or "", rv.site or ""),
                      tags, ctag + [str(rv.site)]))
        return res
    if not close(rb.value, rv.value):
        V.append(viol("c09.value", "value %.8f for the base portfolio, %.8f after %s (names %s, nodes %s, order %s)"
                      % (rb.value, rv.value, ",".join(ctag[1:]), case["names"], case["nodeset"], case["perm"]), tags, ctag))
    # relabel the variant's outputs back to base names
    inv_a = {v: k for k, v in amap.items()}
    inv_n = {v: k for k, v in nmap.items()}
    tab_v, _ = rv.table()
    tab_b, _ = rb.table()
    back = {(inv_a.get(a, a), inv_n.get(n, n)): arr for (a, n), arr in tab_v.items()}
    if set(back) != set(tab_b):
        V.append(viol("c09.columns", "dispatch columns differ after relabelling: %s vs %s" % (sorted(back), sorted(tab_b)), tags, ctag))
        return res
    dcf_v = {inv_a.get(c, c): float(np.nansum(rv.out["DCF"][c].values)) for c in rv.out["DCF"].columns}
    dcf_b = {c: float(np.nansum(rb.out["DCF"][c].values)) for c in rb.out["DCF"].columns}
    same_disp = all(np.abs(back[k] - tab_b[k]).max() <= 1e-6 * (1 + np.abs(tab_b[k]).max()) for k in tab_b)
    same_dcf = all(close(dcf_v.get(k, 0.0), dcf_b[k], rel=1e-6, abs_=1e-6) for k in dcf_b)
    if same_disp and same_dcf:
        res["counters"]["identical_outputs"] = 1
    else:
        # different optimal vertex or a real difference? -> plug-in oracle on the base reference model
        try:
            ref = R2.RefModel(base_scn)
            pst, pval = ref.plug_in(back)
            if pst != "optimal" or not close(pval, rb.value, abs_=1e-7 + ref.pin_slack):
                V.append(viol("c09.dispatch", "the variant's dispatch, relabelled, is not an optimum of the base portfolio (%s, %s vs %.8f)"
                              % (pst, pval, rb.value), tags, ctag))
            else:
                costs = ref.asset_cost_by_step(ref.x_plug)
                for k in dcf_b:
                    want = -float(costs.get(k, np.zeros(1)).sum())
                    if not close(want, dcf_v.get(k, 0.0), rel=1e-6, abs_=1e-6 + ref.pin_slack):
                        V.append(viol("c09.dcf", "asset %s: DCF %.8f after relabelling, its dispatch is worth %.8f" % (k, dcf_v.get(k, 0.0), want), tags, ctag))
                        break
            res["counters"]["plugin_used"] = 1
        except R2.Unsupported:
            # R2 cannot model this base: decide uniqueness by solving the base with a second solver
            rb2 = ImplRun(base_scn, solver=None)
            if rb2.status == "optimal":
                tab2, _ = rb2.table()
                unique = all(np.abs(tab2[k] - tab_b[k]).max() <= 1e-4 * (1 + np.abs(tab_b[k]).max()) for k in tab_b)
                if unique:
                    if not same_disp:
                        V.append(viol("c09.dispatch", "dispatch differs from the base run although the base optimum is reproduced by two solvers", tags, ctag))
                    elif not same_dcf:
                        V.append(viol("c09.dcf", "per-asset DCF differs from the base run: %s vs %s" % (dcf_v, dcf_b), tags, ctag))
                res["counters"]["unique_by_two_solvers" if unique else "nonunique_skipped"] = 1
    res["nontrivial"] = bool(sum(float(np.abs(v).sum()) for v in tab_b.values()) > 1e-6)
    return res
