"""C04 - value accounting: value == sum of the DCF table; per-asset DCF == -c.x over its own variables."""
import numpy as np

from mc import scenario as S
from ref import lp as R2
from .common import viol, merge_cases, family, ImplRun, asset_nodes, close, short_exc
from . import c07, c01

PROPERTY = "C04"
RULE = ("E1: portfolios incl. order books, periodic / coarse assets, scaled and structured wrappers, plant/CHP, "
        "mono and split mode, <= K deviations; distinct = canonical scenario; non-trivial = optimal with a "
        "non-zero cash flow for >= 2 assets")
ASSUMPTIONS = ["ownership of variables is established without the mapping: (a) c,l,u are concatenated in portfolio order with "
               "block sizes taken from each asset built stand-alone (mono mode), (b) R2 recomputes each asset's discounted "
               "cash flow from the dispatch table alone (classes R2 models)",
               "tolerance rel 1e-6"]
EXPLANATION = "bounded exhaustive scenario enumeration; accounting identities checked on every returned solution"
MIN_NONTRIVIAL_FRACTION = 0.4
MAX_S = {"quick": 900, "thorough": 7200}

FEATS = dict(c01.FEATS, wacc=1, sto_costs=1, extras=["mc", "ob", "dem", "plantfuel", "chp", "chpml", "linked"])


def build_cases(tier):
    K = 2 if tier == "quick" else 3
    split = dict(FEATS, grids=["8x6h", "4x6h_off", "7xh_autumn"], modes=["split:12h", "split:d", "split:5h"], common_window=[8, 1, 9])
    cases, stats = merge_cases(family("main", lambda ch: S.gen_portfolio(ch, FEATS), K),
                               family("split", lambda ch: S.gen_portfolio(ch, split), K),
                               family("wrapped", c07.gen_wrapped, K))
    stats["bound"] = dict(K=K)
    return cases, stats


def run_case(case):
    from mc import impl
    scn = case["scenario"]
    tags = S.feature_tags(scn)
    res = dict(status="ok", violations=[], counters={})
    run = ImplRun(scn, solver="SCIPY")
    res["fingerprint"] = "%s|%s" % (run.status, None if run.value is None else round(run.value, 6))
    res["outcome"] = run.status if run.status != "optimal" else "optimal:%s" % (round(run.value, 3))
    if run.status != "optimal":
        res["status"] = "skip"
        res["validated"] = False
        res["counters"]["impl_%s@%s" % (run.status, run.site)] = 1
        return res
    out = run.out
    dcf = out["DCF"]
    V = res["violations"]
    val = run.value
    sval = float(out["summary"].loc["value", "Values"])
    if not close(val, sval):
        V.append(viol("c04.summary", "Results.value %.8f vs summary value %.8f" % (val, sval), tags, ["summary"]))
    tot = float(np.nansum(dcf.values))
    if not close(val, tot, rel=1e-6, abs_=1e-6):
        V.append(viol("c04.total", "Results.value %.8f vs sum of the DCF table %.8f" % (val, tot), tags, ["total"]))
    x = np.asarray(run.res.x, float)
    c = np.asarray(run.op.c, float)
    if not close(val, float(-(c * x).sum()), rel=1e-6, abs_=1e-6):
        V.append(viol("c04.value_cx", "Results.value %.8f vs -c.x %.8f" % (val, float(-(c * x).sum())), tags, ["cx"]))
    names = [a["name"] for a in scn["assets"]]
    types = {a["name"]: a["type"] for a in scn["assets"]}
    per_asset = {nm: float(np.nansum(dcf[nm].values)) for nm in names if nm in dcf.columns}
    for nm in names:
        if nm not in dcf.columns:
            V.append(viol("c04.column", "no DCF column for asset %s" % nm, tags, ["column"]))
    # (a) ownership by block structure (mono mode)
    if scn.get("mode", "mono") == "mono":
        try:
            portf_a, tg_a, prices_a = impl.build(scn)
            sizes = [len(a.setup_optim_problem(prices_a, tg_a).c) for a in portf_a.assets]
        except Exception as e:
            sizes = None
            res["counters"]["alone_error"] = 1
        if sizes is not None and sum(sizes) == len(c):
            off = 0
            for nm, n in zip(names, sizes):
                own = float(-(c[off:off + n] * x[off:off + n]).sum())
                if nm in per_asset and not close(own, per_asset[nm], rel=1e-6, abs_=1e-6):
                    ct = ["asset_type:" + types[nm]]
                    V.append(viol("c04.own_vars", "asset %s: DCF total %.8f but -c.x over its own variables (block %d..%d) is %.8f"
                                  % (nm, per_asset[nm], off, off + n - 1, own), tags + ct, ct))
                off += n
    # (b) R2: per-asset cash flow recomputed from the dispatch table alone
    try:
        ref = R2.RefModel(scn)
    except R2.Unsupported:
        ref = None
    except Exception as e:
        ref = None
    if ref is not None:
        tab, nodes = run.table()
        pst, pval = ref.plug_in(tab)
        if pst == "optimal" and not close(pval, val, rel=1e-6, abs_=1e-6 + ref.pin_slack):
            # the formulations disagree on this scenario (a C02/C13 matter): the reference cannot be
            # used as an attribution oracle here, C04 itself makes no statement about the formulation
            res["counters"]["ref_value_differs"] = 1
        elif pst == "optimal":
            costs = ref.asset_cost_by_step(ref.x_plug)
            for nm in names:
                if nm in per_asset:
                    want = -float(costs.get(nm, np.zeros(1)).sum())
                    if not close(want, per_asset[nm], rel=1e-6, abs_=1e-6 + ref.pin_slack):
                        ct = ["asset_type:" + types[nm]]
                        V.append(viol("c04.ref_dcf", "asset %s: DCF total %.8f, cash flow recomputed from its dispatch %.8f"
                                      % (nm, per_asset[nm], want), tags + ct, ct))
            res["counters"]["ref_checked"] = 1
        else:
            res["counters"]["ref_plugin_" + pst.split(":")[0]] = 1
    res["nontrivial"] = bool(sum(1 for v in per_asset.values() if abs(v) > 1e-9) >= 2)
    # (c) the same identities for a robust optimisation (maximal worst case over cost samples): the reported value is
    #     the value of the returned dispatch under the portfolio's own costs, whatever the spelling of the target
    if scn.get("mode", "mono") == "mono" and case.get("cost", 0) <= 1:
        try:
            import eaopack as eao
            pf, tg, prices = impl.build(scn)
            op = pf.setup_optim_problem(prices, tg)
            samples = []
            for f in (lambda v: v[::-1].copy(), lambda v: 1.5 * v + 1.0):
                samples.append({k: (f(v) if k in ("p", "q", "ec") else v) for k, v in prices.items()})
            csamp = pf.create_cost_samples(samples, tg)
            spell = ["robust", "Robust", "ROBUST"][int(case["key"][:4], 16) % 3]
            rr = op.optimize(target=spell, samples=csamp, solver="SCIPY")
            if not isinstance(rr, str):
                xr = np.asarray(rr.x, float)
                own = float(-(np.asarray(op.c, float) * xr).sum())
                outr = eao.io.extract_output(pf, op, rr, prices)
                totr = float(np.nansum(outr["DCF"].values))
                svalr = float(outr["summary"].loc["value", "Values"])
                res["counters"]["robust_checked"] = 1
                if not close(float(rr.value), own, rel=1e-6, abs_=1e-6):
                    V.append(viol("c04.robust_value_cx", "robust optimisation (target=%r): Results.value %.8f vs -c.x %.8f under the portfolio's own costs"
                                  % (spell, rr.value, own), tags + ["robust"], ["robust", "cx"]))
                if not close(float(rr.value), totr, rel=1e-6, abs_=1e-6) or not close(svalr, totr, rel=1e-6, abs_=1e-6):
                    V.append(viol("c04.robust_total", "robust optimisation (target=%r): Results.value %.8f, summary value %.8f, sum of the DCF table %.8f"
                                  % (spell, rr.value, svalr, totr), tags + ["robust"], ["robust", "total"]))
            else:
                res["counters"]["robust_" + rr.replace(" ", "_")] = 1
        except Exception as e:
            res["counters"]["robust_error"] = 1
        # (d) ... and for the two-stage stochastic problem made from the portfolio (documented workflow: make_slp -> optimize ->
        #     extract_output): the value of the SLP is the sum of the DCF table (future cash flows are means over the scenarios)
        try:
            from copy import deepcopy
            pf, tg, prices = impl.build(scn)
            op = pf.setup_optim_problem(prices, tg)
            samples = []
            for f in (lambda v: v[::-1].copy(), lambda v: 1.5 * v + 1.0):
                samples.append({k: (f(v) if k in ("p", "q", "ec") else v) for k, v in prices.items()})
            slp = eao.stoch_lin_prog.make_slp(deepcopy(op), pf, tg, tg.timepoints[max(1, tg.T // 2)], samples)
            rs = slp.optimize(solver="SCIPY")
        except Exception as e:
            rs = None
            res["counters"]["slp_error"] = 1
        if rs is not None and not isinstance(rs, str):
            try:
                outs = eao.io.extract_output(pf, slp, rs, prices)
                tots = float(np.nansum(outs["DCF"].values))
                svals = float(outs["summary"].loc["value", "Values"])
                res["counters"]["slp_checked"] = 1
                if not close(float(rs.value), tots, rel=1e-6, abs_=1e-6) or not close(svals, tots, rel=1e-6, abs_=1e-6):
                    V.append(viol("c04.slp_total", "two-stage stochastic problem: Results.value %.8f, summary value %.8f, sum of the DCF table %.8f"
                                  % (rs.value, svals, tots), tags + ["slp"], ["slp", "total"]))
                xs = np.asarray(rs.x, float)
                if not close(float(rs.value), float(-(np.asarray(slp.c, float) * xs).sum()), rel=1e-6, abs_=1e-6):
                    V.append(viol("c04.slp_value_cx", "two-stage stochastic problem: Results.value %.8f vs -c.x %.8f" % (rs.value, float(-(np.asarray(slp.c, float) * xs).sum())),
                                  tags + ["slp"], ["slp", "cx"]))
            except Exception as e:
                from .common import exc_site
                V.append(viol("c04.slp_output", "two-stage stochastic problem solved (value %.6f), but the DCF table cannot be extracted: %s at %s"
                              % (rs.value, short_exc(e), exc_site()), tags + ["slp"], ["slp", "raises"]))
    return res
