"""C15 - fixing a time window pins exactly that part of the solution.

E3 x E2-style 3-step histories [set-up + optimise with prices A; rebuild with a fixed window and
prices A or B; re-optimise]: portfolios incl. assets with several mapping rows per variable x ALL
2^T index masks (T = 4) and every date position x new prices x grid passed / set previously.
"""
import copy
import itertools
import datetime as dt
import numpy as np
import pandas as pd

from mc import scenario as S
from mc.explore import chash
from ref.grid import Grid
from .common import viol, short_exc, exc_site

PROPERTY = "C15"
RULE = ("E3: 11 portfolios (contracts + storage; + transport; + multi-commodity; plant with fuel node (MIP); order book; coarse-frequency "
        "asset; periodic asset; structured asset; capacities from a price series; scaled asset with a free scale; CHP with heat, ramp and start costs) x all 16 index masks over T=4 steps (as array and as list) + 8 date positions "
        "(before the start, each grid point, between grid points, after the end; as datetime and as date) x new prices in {A, B} x grid "
        "passed / set previously; each case is the history [set-up+optimise A, rebuild fixed, re-optimise]; distinct = canonical case; "
        "non-trivial = window contains at least one variable with non-zero previous value and the history completed")
ASSUMPTIONS = ["a variable belongs to the window if one of its mapping rows has a step in the window",
               "date form: steps strictly before the date must be pinned, steps strictly after must stay free, the step at the date is left open",
               "bounds are compared exactly (1e-12), re-optimised values with 1e-6"]
EXPLANATION = "full product of window masks / dates x portfolios; bound equality and re-solve oracle on every 3-step history"
MIN_NONTRIVIAL_FRACTION = 0.3
MAX_S = {"quick": 900, "thorough": 7200}

PORTFOLIOS = ["simple", "transport", "multicommodity", "plantfuel", "orderbook", "coarse", "periodic", "structured", "series_caps", "scaled", "chp"]
GRID = dict(start="2021-01-01T00:00", end="2021-01-02T00:00", freq="6h", mtu="h", tz=None)


def portfolio(name):
    g = Grid.from_json(GRID)
    r = S.r
    base = [dict(type="SimpleContract", name="mkt", nodes=["n1"], price="p", min_cap=-5.15, max_cap=5.15),
            dict(type="SimpleContract", name="sup", nodes=["n1"], price="q", min_cap=0.0, max_cap=3.0, extra_costs=0.2),
            dict(type="Storage", name="sto", nodes=["n1"], size=8.0, cap_in=1.0, cap_out=2.0, start_level=1.0, end_level=1.0, eff_in=0.9)]
    mk2 = dict(type="SimpleContract", name="mk2", nodes=["n2"], price="q", min_cap=-4.0, max_cap=4.0)
    if name == "simple":
        return base
    if name == "transport":
        return [base[0], dict(type="Transport", name="tr", nodes=["n1", "n2"], min_cap=0.0, max_cap=3.0, efficiency=0.9, costs_const=0.1), mk2, base[2]]
    if name == "multicommodity":
        return [base[0], dict(type="MultiCommodityContract", name="mc", nodes=["n1", "n2"], price="ec", min_cap=0.0, max_cap=4.0, factors_commodities=[1.0, 0.5]), mk2, base[2]]
    if name == "plantfuel":
        return [dict(type="SimpleContract", name="gas", nodes=["nf"], price="ec", min_cap=0.0, max_cap=50.0),
                dict(type="Plant", name="pl", nodes=["n1", "nf"], min_cap=1.1, max_cap=5.3, fuel_efficiency=0.45, start_costs=2.0, start_fuel=1.3,
                     min_runtime=12, time_already_off=10), base[0], base[2]]
    if name == "orderbook":
        ob = dict(type="OrderBook", name="ob", nodes=["n1"], orders=dict(start=["2021-01-01T06:00", "2021-01-01T00:00", "2020-12-31T00:00"],
                                                                         end=["2021-01-01T18:00", "2021-01-03T00:00", "2020-12-31T12:00"],
                                                                         capa=[2.0, -1.5, 1.0], price=[2.5, 4.0, 0.1]))
        return [base[0], ob, base[2]]
    if name == "coarse":
        return [base[0], dict(type="SimpleContract", name="co", nodes=["n1"], price="q", min_cap=-2.0, max_cap=3.0, freq="12h"), base[2]]
    if name == "periodic":
        return [base[0], dict(type="SimpleContract", name="pe", nodes=["n1"], price="q", min_cap=-2.0, max_cap=3.0, periodicity="12h"), base[2]]
    if name == "series_caps":
        # must-run feed-in whose capacity is a series of the price data: with new prices the bounds inside the window change
        return [base[0], dict(type="SimpleContract", name="wind", nodes=["n1"], min_cap="wind", max_cap="wind"), base[2]]
    if name == "scaled":
        # the scale variable (with the fix costs) belongs to the first time step
        b = dict(type="Storage", name="b", nodes=["n1"], size=6.0, cap_in=1.0, cap_out=1.5, eff_in=0.95)
        return [base[0], dict(type="ScaledAsset", name="sc", base_asset=b, min_scale=0.0, max_scale=2.0, norm_scale=1.0, fix_costs=0.02), base[1]]
    if name == "chp":
        return [base[0], dict(type="SimpleContract", name="heat", nodes=["nh"], price="q", min_cap=-3.0, max_cap=0.0),
                dict(type="CHPAsset", name="chp", nodes=["n1", "nh"], price="ec", min_cap=1.0, max_cap=6.0, max_share_heat=0.5, conversion_factor_power_heat=0.8,
                     start_costs=1.5, ramp=3.0, time_already_off=10), base[2]]
    if name == "structured":
        inner = [dict(type="Storage", name="isto", nodes=["ni"], size=6.0, cap_in=1.0, cap_out=1.0),
                 dict(type="Transport", name="itr", nodes=["ni", "n1"], min_cap=-2.0, max_cap=2.0, efficiency=0.95)]
        return [base[0], dict(type="StructuredAsset", name="st", nodes=["n1"], portfolio=inner), base[1]]
    raise ValueError(name)


DATES = ["2020-12-31T18:00", "2021-01-01T00:00", "2021-01-01T03:00", "2021-01-01T06:00", "2021-01-01T12:00", "2021-01-01T15:00",
         "2021-01-01T18:00", "2021-01-02T06:00", "2021-01-01T06:30", "2021-01-01T18:45"]


def build_cases(tier):
    cases = []
    masks = list(itertools.product([False, True], repeat=4))
    for pf in PORTFOLIOS:
        for newp in ("A", "B"):
            for gridarg in ("passed", "previous"):
                for m in masks:
                    forms = ("array", "list") if (tier == "thorough" or (gridarg == "passed" and newp == "B")) else ("array",)
                    for form in forms:
                        c = dict(pf=pf, newp=newp, gridarg=gridarg, window=dict(kind="mask", mask=list(m), form=form))
                        c["key"] = chash(c)
                        cases.append(c)
                for d in DATES:
                    forms = ("datetime", "date") if d.endswith("T00:00") else ("datetime",)
                    for form in forms:
                        c = dict(pf=pf, newp=newp, gridarg=gridarg, window=dict(kind="date", date=d, form=form))
                        c["key"] = chash(c)
                        cases.append(c)
    # zone-aware grid: date windows given zone-aware, in the grid's zone and in another zone
    for pf in ("simple", "transport"):
        for newp in ("A", "B"):
            for d in DATES:
                for zone in ("CET", "UTC", "naive"):   # naive: wall-clock time of the grid's zone, as for every other date handed to EAO
                    c = dict(pf=pf, newp=newp, gridarg="passed", tz="CET", window=dict(kind="date", date=d, form="aware:" + zone))
                    c["key"] = chash(c)
                    cases.append(c)
            for m in masks[::3]:
                c = dict(pf=pf, newp=newp, gridarg="previous", tz="CET", window=dict(kind="mask", mask=list(m), form="array"))
                c["key"] = chash(c)
                cases.append(c)
    stats = dict(explorer="E3 product of 3-step histories", states=len(cases), transitions=3 * len(cases),
                 bound=dict(T=4, masks=16, dates=len(DATES), portfolios=len(PORTFOLIOS)))
    return cases, stats


def run_case(case):
    from mc import impl
    res = dict(status="ok", violations=[], counters={})
    V = res["violations"]
    w = case["window"]
    tags = ["pf:" + case["pf"], "window:" + w["kind"], "form:" + w["form"], "prices:" + case["newp"], "grid:" + case["gridarg"], "tz:%s" % case.get("tz")]
    ctag = ["pf:" + case["pf"], "window:" + w["kind"], "grid:" + case["gridarg"]]
    gjson = dict(GRID, tz=case.get("tz"))
    g = Grid.from_json(gjson)
    T = g.T
    PA = {k: np.array(v) for k, v in S.make_prices(T, S.PRICE_PAIRS[0]).items()}
    PB = {k: np.array(v) for k, v in S.make_prices(T, S.PRICE_PAIRS[1]).items()}
    PA["wind"] = np.array([1.0, 2.0, 0.5, 1.5])
    PB["wind"] = np.array([1.5, 0.5, 1.0, 2.5])
    Pnew = PA if case["newp"] == "A" else PB
    scn = dict(grid=gjson, prices={}, assets=portfolio(case["pf"]))
    try:
        portf, tg, _ = impl.build(scn)
        opA = portf.setup_optim_problem(PA, tg)
        resA = opA.optimize(solver="SCIPY")
        if isinstance(resA, str):
            res.update(status="skip", validated=False, outcome="A:" + resA)
            return res
    except Exception as e:
        res.update(status="skip", validated=False, outcome="A raises " + short_exc(e))
        res["counters"]["A_raises"] = 1
        return res
    xA = np.asarray(resA.x, float).copy()
    # window in the user's form
    if w["kind"] == "mask":
        mask = list(w["mask"])
        win_arg = np.array(mask) if w["form"] == "array" else list(mask)
        must = [t for t in range(T) if mask[t]]
        free = [t for t in range(T) if not mask[t]]
    else:
        from ref.grid import parse_instant
        if w["form"].startswith("aware:"):
            di = parse_instant(w["date"], case.get("tz"))
            win_arg = pd.Timestamp(di).tz_convert(w["form"].split(":")[1]).to_pydatetime() if not w["form"].endswith(":naive") \
                else pd.Timestamp(w["date"]).to_pydatetime()
        else:
            d = pd.Timestamp(w["date"]).to_pydatetime()
            win_arg = d.date() if w["form"] == "date" else d
            di = parse_instant(w["date"], None)
        must = [t for t in range(T) if g.points[t] < di]
        free = [t for t in range(T) if g.points[t] > di]
    fix = {"I": win_arg, "x": xA.copy()}
    # unfixed rebuild with the new prices (fresh objects) as reference for everything that must stay as it is
    portfU, tgU, _ = impl.build(scn)
    opU = portfU.setup_optim_problem(Pnew, tgU)
    try:
        if case["gridarg"] == "passed":
            opC = portf.setup_optim_problem(Pnew, tg, fix_time_window=fix)
        else:
            opC = portf.setup_optim_problem(Pnew, fix_time_window=fix)
    except Exception as e:
        V.append(viol("c15.raises", "rebuilding %s with fix_time_window (%s %s, grid %s) raises %s at %s"
                      % (case["pf"], w["kind"], w.get("mask", w.get("date")), case["gridarg"], short_exc(e), exc_site()), tags + ["site:" + exc_site()],
                      ctag + ["site:" + exc_site()]))
        return res
    m = opU.mapping
    steps_of = {}
    for idx, t in zip(m.index.values, m["time_step"].values):
        steps_of.setdefault(int(idx), set()).add(int(t))
    n = len(opU.c)
    if len(opC.c) != n:
        V.append(viol("c15.shape", "fixed problem has %d variables, unfixed %d" % (len(opC.c), n), tags, ctag))
        return res
    must_vars = [j for j in range(n) if steps_of.get(j, set()) & set(must)]
    free_vars = [j for j in range(n) if not (steps_of.get(j, set()) - set(free))]   # all rows strictly outside (incl. unmapped variables)
    lC, uC = np.asarray(opC.l, float), np.asarray(opC.u, float)
    lU, uU = np.asarray(opU.l, float), np.asarray(opU.u, float)
    bad_pin = [j for j in must_vars if abs(lC[j] - xA[j]) > 1e-12 or abs(uC[j] - xA[j]) > 1e-12]
    if bad_pin:
        j = bad_pin[0]
        V.append(viol("c15.not_pinned", "variable %d (steps %s, in the window %s) has bounds [%.6f, %.6f], previous value %.6f"
                      % (j, sorted(steps_of.get(j, [])), must, lC[j], uC[j], xA[j]), tags, ctag))
    bad_free = [j for j in free_vars if abs(lC[j] - lU[j]) > 1e-12 or abs(uC[j] - uU[j]) > 1e-12]
    if bad_free:
        j = bad_free[0]
        V.append(viol("c15.not_free", "variable %d (steps %s, outside the window) has bounds [%.6f, %.6f], the unfixed problem has [%.6f, %.6f]"
                      % (j, sorted(steps_of.get(j, [])), lC[j], uC[j], lU[j], uU[j]), tags, ctag))
    if np.abs(np.asarray(opC.c) - np.asarray(opU.c)).max(initial=0) > 1e-12 or opC.cType != opU.cType or \
            abs(opC.A - opU.A).max() > 1e-12 or np.abs(np.asarray(opC.b) - np.asarray(opU.b)).max(initial=0) > 1e-12:
        V.append(viol("c15.changed", "cost vector or restrictions of the fixed problem differ from the unfixed problem", tags, ctag))
    # user data untouched (the previous solution handed in)
    if not np.array_equal(np.asarray(fix["x"], float), xA):
        res["counters"]["x_argument_modified"] = 1
    try:
        resC = opC.optimize(solver="SCIPY")
    except Exception as e:
        V.append(viol("c15.raises", "optimising the fixed problem raises %s" % short_exc(e), tags, ctag + ["optimize"]))
        return res
    if isinstance(resC, str):
        V.append(viol("c15.infeasible", "the problem with the window fixed to the previous solution is reported as %r" % resC, tags, ctag))
        return res
    xC = np.asarray(resC.x, float)
    dev = [j for j in must_vars if abs(xC[j] - xA[j]) > 1e-6 * (1 + abs(xA[j]))]
    if dev:
        V.append(viol("c15.solution", "variable %d in the window: previous value %.6f, new solution %.6f" % (dev[0], xA[dev[0]], xC[dev[0]]), tags, ctag))
    if case["newp"] == "A" and abs(float(resC.value) - float(resA.value)) > 1e-6 * (1 + abs(float(resA.value))):
        V.append(viol("c15.value", "unchanged prices: value %.8f before, %.8f with the window fixed" % (resA.value, resC.value), tags, ctag))
    res["nontrivial"] = bool(any(abs(xA[j]) > 1e-9 for j in must_vars))
    res["outcome"] = "pinned=%d free=%d" % (len(must_vars), len(free_vars))
    res["fingerprint"] = "%s|%.6f" % (res["outcome"], float(resC.value))
    return res
