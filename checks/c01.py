"""C01 - nodal balance per node and step, read from the dispatch output only."""
import numpy as np

from mc import scenario as S
from .common import bool_vars, viol, merge_cases, family, ImplRun, asset_nodes
from . import c07

PROPERTY = "C01"
RULE = ("E1: portfolios over every asset type with several mapping rows per variable (transport with efficiency, "
        "multi-commodity, plant/CHP with fuel node, order book, coarse frequency, periodicity, two-node storage), "
        "windows, mono and split mode, bare and wrapped (scaled / structured), <= K deviations; distinct = canonical "
        "scenario; non-trivial = optimal with non-zero dispatch at >= 1 node")
ASSUMPTIONS = ["only io.extract_output()['dispatch'] is read; node membership comes from the scenario, not from the mapping",
               "tolerance 1e-6*(1+max|flow|) (HiGHS vertex solutions)"]
EXPLANATION = "bounded exhaustive scenario enumeration; invariant evaluated on every returned solution"
MIN_NONTRIVIAL_FRACTION = 0.4
MAX_S = {"quick": 900, "thorough": 7200}

FEATS = dict(
    grids=["4x6h", "8x3h", "3xd_spring", "12h_partial", "4x6h_d", "4x6h_cet"],
    price_pairs=S.PRICE_PAIRS[:1],
    bases=["one", "two"],
    extras=["mc", "ob", "dem", "plantfuel", "chp", "chpml", "linked", "loop", "mcsame"],
    modes=["mono", "split:12h", "split:d"],
    caps=1, extra_costs=1, window=1, takes=1,
    freq=["12h"], periodicity=[("12h", None)],
    sto_eff=1, sto_inflow=1, sto_levels=1, sto_two_nodes=1, sto_blocks=["12h"],
    tr_dir=1, tr_eff=1, tr_costs=1, tr_takes=1, mc_factors=1, ob_full=1,
    uc_caps=1, uc_ramp=1, uc_times=1, uc_costs=1, chp_heat=1, uc_fuel=1,
)


def build_cases(tier):
    K = 2 if tier == "quick" else 3
    feats = dict(FEATS) if tier == "quick" else dict(FEATS, price_pairs=S.PRICE_PAIRS[:2])
    split = dict(feats, grids=["8x6h", "4x6h_off", "7xh_autumn"], modes=["split:12h", "split:d", "split:5h"], common_window=[8, 1, 9])
    cases, stats = merge_cases(family("main", lambda ch: S.gen_portfolio(ch, feats), K),
                               family("split", lambda ch: S.gen_portfolio(ch, split), K),
                               family("wrapped", c07.gen_wrapped, K))
    stats["bound"] = dict(K=K)
    return cases, stats


def balance_violations(tab, nodes, T, tags, oracle="c01.balance"):
    V = []
    scale = 1.0 + max([float(np.abs(v).max(initial=0.0)) for v in tab.values()] + [0.0])
    for n in nodes:
        tot = np.zeros(T)
        for (a, nn), v in tab.items():
            if nn == n:
                tot += v
        bad = np.where(np.abs(tot) > 1e-6 * scale)[0]
        if len(bad):
            t = int(bad[0])
            parts = {a: float(v[t]) for (a, nn), v in tab.items() if nn == n and abs(v[t]) > 1e-9}
            V.append(viol(oracle, "node %s step %d: dispatches sum to %.6g (%s)" % (n, t, tot[t], parts), tags, ["node"]))
            break
    return V


def run_case(case):
    scn = case["scenario"]
    tags = S.feature_tags(scn)
    res = dict(status="ok", violations=[], counters={})
    run = ImplRun(scn, solver="SCIPY")
    res["fingerprint"] = "%s|%s" % (run.status, None if run.value is None else round(run.value, 6))
    res["outcome"] = run.status if run.status != "optimal" else "optimal:%s" % (round(run.value, 3))
    if run.status != "optimal":
        res["status"] = "skip"
        res["validated"] = False
        res["counters"]["impl_%s@%s" % (run.status, run.site)] = 1
        return res
    tab, nodes = run.table()
    T = len(run.out["dispatch"])
    # every (asset, node) of the scenario must have its column
    for a in scn["assets"]:
        for n in asset_nodes(a):
            if (a["name"], n) not in tab:
                res["violations"].append(viol("c01.column", "no dispatch column for asset %s node %s" % (a["name"], n), tags, ["column"]))
    if np.isnan(np.concatenate([v for v in tab.values()]) if tab else np.zeros(1)).any():
        res["violations"].append(viol("c01.nan", "NaN in the dispatch output", tags, ["nan"]))
        return res
    res["violations"] += balance_violations(tab, nodes, T, tags)
    res["nontrivial"] = bool(sum(float(np.abs(v).sum()) for v in tab.values()) > 1e-6)
    # a relaxed solve of a MIP portfolio (boolean variables may take fractions) is a returned solution as well
    if scn.get("mode", "mono") == "mono" and bool_vars(run.op):
        try:
            import eaopack as eao
            soft = run.op.optimize(solver="SCIPY", make_soft_problem=True)
            if not isinstance(soft, str):
                out2 = eao.io.extract_output(run.portf, run.op, soft, run.prices)
                run2 = ImplRun.__new__(ImplRun)
                run2.scn, run2.out = scn, out2
                tab2, nodes2 = ImplRun.table(run2)
                res["violations"] += [dict(v, oracle="c01.balance_relaxed") for v in balance_violations(tab2, nodes2, T, tags + ["relaxed"])]
                res["counters"]["relaxed_checked"] = 1
        except Exception as e:
            res["counters"]["relaxed_error"] = 1
    return res
