"""C16 - scaled and structured assets are equivalent to what they wrap."""
import copy
import numpy as np

from mc import scenario as S
from ref.grid import Grid
from ref import lp as R2
from .common import viol, merge_cases, family, ImplRun, close

PROPERTY = "C16"
RULE = ("E1: scaled storage (levels, inflow, efficiency) / contract / must-run contract / take contract / transport at fixed scale "
        "s in {1,0.5,2,3} or free scale in [0,5], normalisation {1,2,4}, cost rate {0,0.1}, window menu, position in the list; "
        "structured assets over 2-3 inner assets with one or two external nodes, with / without own window and inner windows; "
        "<= K deviations on three grids; distinct = canonical scenario; non-trivial = optimal and the wrapped asset dispatches")
ASSUMPTIONS = ["fixed scale: reference = the generator-built plain portfolio with capacities, size, levels, inflow and take volumes x s/S, run "
               "through the real code, value minus s x rate x active duration (R1); dispatch through the plug-in oracle (R2)",
               "scaled asset and base asset carry the same window, or the base asset alone has one (the scaled asset is then active, and pays fix costs, over the whole horizon)",
               "free scale: value equals the fixed-scale value at the returned scale and is >= the fixed-scale value on a 6-point grid",
               "structured: reference = flat portfolio with inner windows intersected with the structured asset's window"]
EXPLANATION = "bounded exhaustive scenario enumeration; differential oracle against the equivalent plain portfolio"
MIN_NONTRIVIAL_FRACTION = 0.4
MAX_S = {"quick": 900, "thorough": 7200}

KINDS = ["scaled_storage", "scaled_contract", "scaled_mustrun", "scaled_take", "scaled_transport", "structured1", "structured2",
         "scaled_mc", "scaled_ob", "scaled_struct", "scaled_storage_mip", "scaled_plant",
         "structured_ob", "structured_plant", "structured_nested", "structured_scaled"]
SCALABLE = ("min_cap", "max_cap", "size", "cap_in", "cap_out", "start_level", "end_level", "inflow")
BOOL_BASE = ("scaled_storage_mip", "scaled_plant")   # base assets with boolean variables


def gen(ch):
    gname = ch.pick("grid", ["4x6h", "8x6h", "3xd_spring"])
    gj = dict(S.GRIDS[gname])
    g = Grid.from_json(gj)
    T = g.T
    prices = S.make_prices(T, ch.free("prices", S.PRICE_PAIRS[:2]))
    kind = ch.free("kind", KINDS)
    r = S.r
    assets = [dict(type="SimpleContract", name="mkt", nodes=["n1"], price="p", min_cap=r(-5.0, g), max_cap=r(5.0, g)),
              dict(type="SimpleContract", name="mk2", nodes=["n2"], price="q", min_cap=r(-4.0, g), max_cap=r(4.0, g)),
              dict(type="Transport", name="link", nodes=["n1", "n2"], min_cap=0.0, max_cap=r(1.0, g))]
    meta = dict(kind=kind)
    wmenu = [None, (("gp", 1), None), (None, ("gp", T - 1)), (("gp", 1), ("gp", T - 1)), (("mid", 0), ("mid", T - 2)), (("before", 1), ("gp", 2))]
    if kind.startswith("scaled"):
        w = ch.pick("window", wmenu)
        s_, e_ = S.resolve_window(g, w)
        win = {}
        if s_:
            win["start"] = s_
        if e_:
            win["end"] = e_
        if kind == "scaled_storage":
            b = dict(type="Storage", name="b", nodes=["n1"], size=4.0, cap_in=r(0.5, g), cap_out=r(1.0, g), start_level=0.0, end_level=0.0)
            lv = ch.pick("b.levels", [(0.0, 0.0), (1.0, 1.0), (2.0, 1.0)])
            b["start_level"], b["end_level"] = lv
            if ch.pick("b.inflow", [0.0, 0.05]):
                b["inflow"] = r(0.05, g)
            if ch.pick("b.eff", [1.0, 0.9]) != 1.0:
                b["eff_in"] = 0.9
            if ch.pick("b.cost_store", [0.0, 0.02]):
                b["cost_store"] = r(0.02, g)
        elif kind == "scaled_contract":
            b = dict(type="SimpleContract", name="b", nodes=["n1"], price="q", min_cap=r(-1.0, g), max_cap=r(1.5, g))
            if ch.pick("b.extra_costs", [0.0, 0.3]):
                b["extra_costs"] = 0.3
        elif kind == "scaled_mustrun":
            b = dict(type="SimpleContract", name="b", nodes=["n1"], price="fix9", min_cap=r(0.5, g), max_cap=r(1.5, g))
            if ch.pick("b.sign", ["pos", "neg"]) == "neg":
                b.update(min_cap=r(-1.5, g), max_cap=r(-0.5, g), price="fix0")
        elif kind == "scaled_take":
            b = dict(type="Contract", name="b", nodes=["n1"], price="q", min_cap=0.0, max_cap=r(1.5, g))
            step = g.dt[0] * S.MTU_H[g.mtu]
            tk = ch.pick("b.take", ["min", "max"])
            b[tk + "_take"] = S.interval_dict(g, [((("gp", 0), ("gp", T)), 1.5 * step * (2.5 if tk == "min" else 1.5))])
        elif kind == "scaled_mc":
            b = dict(type="MultiCommodityContract", name="b", nodes=["n1", "n2"], price="q", min_cap=0.0, max_cap=r(1.5, g),
                     factors_commodities=[1.0, ch.pick("b.factor", [0.5, -2.0])])
            if ch.pick("b.extra_costs", [0.0, 0.3]):
                b["extra_costs"] = 0.3
        elif kind == "scaled_ob":
            sel = ch.pick("b.orders", ["inside", "two", "with_outside"])
            O = {"inside": [((("gp", 1), ("gp", T - 1)), 1.0, 2.5)],
                 "two": [((("gp", 0), ("gp", 2)), 1.0, 2.5), ((("gp", 1), ("gp", T)), -0.75, 4.0)],
                 "with_outside": [((("before", 3), ("before", 1)), 1.0, 0.5), ((("gp", 1), ("gp", T - 1)), 1.0, 2.5)]}[sel]
            b = dict(type="OrderBook", name="b", nodes=["n1"],
                     orders=dict(start=[g.instant_iso(s0) for (s0, e0), c0, p0 in O], end=[g.instant_iso(e0) for (s0, e0), c0, p0 in O],
                                 capa=[r(c0, g) for _, c0, p0 in O], price=[p0 for _, c0, p0 in O]))
        elif kind == "scaled_struct":   # the base asset is itself a structured asset (internal flows are internal variables)
            inner = [dict(type="Storage", name="isto", nodes=["ni"], size=6.0, cap_in=r(1.0, g), cap_out=r(1.0, g), start_level=0.0, end_level=0.0),
                     dict(type="Transport", name="itr", nodes=["ni", "n1"], min_cap=r(-2.0, g), max_cap=r(2.0, g))]
            if ch.pick("b.inner_eff", [1.0, 0.9]) != 1.0:
                inner[1]["efficiency"] = 0.9
            b = dict(type="StructuredAsset", name="b", nodes=["n1"], portfolio=inner)
        elif kind == "scaled_storage_mip":
            b = dict(type="Storage", name="b", nodes=["n1"], size=4.0, cap_in=r(0.5, g), cap_out=r(1.0, g), start_level=0.0, end_level=0.0, eff_in=0.9)
            if ch.pick("b.mip", ["no_simult", "duration"]) == "no_simult":
                b["no_simult_in_out"] = True
            else:
                b["max_store_duration"] = S.d_(2 * g.dt[0] * S.MTU_H[g.mtu], g)
        elif kind == "scaled_plant":
            b = dict(type="Plant", name="b", nodes=["n1"], price="q", min_cap=r(0.5, g), max_cap=r(1.5, g))
            if ch.pick("b.start_costs", [0.0, 1.0]):
                b["start_costs"] = 1.0
        else:
            b = dict(type="Transport", name="b", nodes=["n1", "n2"], min_cap=0.0, max_cap=r(1.0, g))
            if ch.pick("b.eff", [1.0, 0.8]) != 1.0:
                b["efficiency"] = 0.8
            if ch.pick("b.costs", [0.0, 0.1]):
                b["costs_const"] = 0.1
        if kind == "scaled_ob" and (g.tz or win):
            return None   # an order book has no life time of its own (and compares its order dates with the grid as given)
        b.update(win)
        # the life time may also be given to the base asset alone: the scaled asset then is active (and pays its fix costs) over the whole horizon
        base_only = bool(win) and kind != "scaled_ob" and ch.free("window_on", ["both", "base_only"]) == "base_only"
        mode = ch.pick("scale", ["fixed1", "fixed0.5", "fixed2", "fixed3", "free"])
        norm = ch.pick("norm", [1.0, 2.0, 4.0, 0.5])
        rate = ch.pick("fix_costs", [0.0, 0.1])
        if mode == "free":
            lo, hi = 0.0, 5.0
        else:
            lo = hi = float(mode[5:])
        sc = dict(type="ScaledAsset", name="sc", base_asset=b, min_scale=lo, max_scale=hi, norm_scale=norm, fix_costs=r(rate, g))
        if not base_only:
            sc.update(win)
        assets.insert(ch.free("pos", [3, 0, 1]), sc)
        meta.update(mode=mode, norm=norm, rate=r(rate, g))
    else:
        inner = [dict(type="Storage", name="isto", nodes=["ni"], size=6.0, cap_in=r(1.0, g), cap_out=r(1.0, g), start_level=0.0, end_level=0.0),
                 dict(type="Transport", name="itr", nodes=["ni", "n1"], min_cap=r(-2.0, g), max_cap=r(2.0, g))]
        ext = ["n1"]
        if kind == "structured2":
            inner.append(dict(type="Transport", name="itr2", nodes=["ni", "n2"], min_cap=0.0, max_cap=r(1.0, g), efficiency=0.9))
            ext = ["n1", "n2"]
        if ch.pick("inner_contract", [False, True]):
            inner.append(dict(type="SimpleContract", name="icon", nodes=["ni"], price="ec", min_cap=0.0, max_cap=r(1.0, g)))
        if kind == "structured_ob":      # an order book behind the internal node
            if g.tz:
                return None
            sel = ch.pick("iob.orders", ["inside", "two", "with_outside"])
            O = {"inside": [((("gp", 1), ("gp", T - 1)), 1.0, 2.5)],
                 "two": [((("gp", 0), ("gp", 2)), 1.0, 2.5), ((("gp", 1), ("gp", T)), -0.75, 4.0)],
                 "with_outside": [((("before", 3), ("before", 1)), 1.0, 0.5), ((("gp", 1), ("gp", T - 1)), 1.0, 2.5)]}[sel]
            ob = dict(type="OrderBook", name="iob", nodes=["ni"],
                      orders=dict(start=[g.instant_iso(s0) for (s0, e0), c0, p0 in O], end=[g.instant_iso(e0) for (s0, e0), c0, p0 in O],
                                  capa=[r(c0, g) for _, c0, p0 in O], price=[p0 for _, c0, p0 in O]))
            if ch.pick("iob.full_exec", [False, True]):
                ob["full_exec"] = True
            inner.insert(ch.free("iob.pos", [0, 2]), ob)
        elif kind == "structured_plant":  # a unit with on/off variables behind the internal node
            pl = dict(type="Plant", name="ipl", nodes=["ni"], price="q", min_cap=r(1.0, g), max_cap=r(3.0, g))
            if ch.pick("ipl.start_costs", [0.0, 2.0]):
                pl["start_costs"] = 2.0
            if ch.pick("ipl.min_runtime", [0, 2]):
                pl["min_runtime"] = S.d_(2 * g.dt[0] * S.MTU_H[g.mtu], g)
            inner.insert(ch.free("ipl.pos", [0, 2]), pl)
        elif kind == "structured_nested":  # the storage sits in a structured asset of its own, one level deeper
            deep = dict(type="StructuredAsset", name="deep", nodes=["ni"],
                        portfolio=[dict(type="Storage", name="dsto", nodes=["nd"], size=3.0, cap_in=r(0.5, g), cap_out=r(0.5, g), start_level=0.0, end_level=0.0),
                                   dict(type="Transport", name="dtr", nodes=["nd", "ni"], min_cap=r(-1.0, g), max_cap=r(1.0, g),
                                        efficiency=ch.pick("dtr.eff", [1.0, 0.9]))])
            inner.append(deep)
        elif kind == "structured_scaled":  # a scaled asset behind the internal node
            sb = dict(type="Storage", name="sb", nodes=["ni"], size=3.0, cap_in=r(0.5, g), cap_out=r(0.5, g), start_level=0.0, end_level=0.0)
            inner.append(dict(type="ScaledAsset", name="isc", base_asset=sb, min_scale=0.0, max_scale=ch.pick("isc.max", [2.0, 0.0]), norm_scale=1.0,
                              fix_costs=r(ch.pick("isc.fix", [0.01, 0.0]), g)))
        st = dict(type="StructuredAsset", name="st", nodes=ext, portfolio=inner)
        if ch.pick("st.node_objects", ["shared", "own"]) == "own":
            st["_fresh_nodes"] = True   # the structured asset names its external nodes through Node objects of its own
        w = ch.pick("st.window", wmenu)
        s_, e_ = S.resolve_window(g, w)
        if s_:
            st["start"] = s_
        if e_:
            st["end"] = e_
        iw = ch.pick("inner.window", [None, (("gp", 1), None), (None, ("gp", T - 1)), (("gp", 2), ("gp", T)), (None, ("gp", 2))])
        if iw:
            s2, e2 = S.resolve_window(g, iw)
            tgt = [x for x in inner if x["type"] != "OrderBook"][ch.free("inner.which", [0, 1])]   # (an order book has no life time of its own)
            if s2:
                tgt["start"] = s2
            if e2:
                tgt["end"] = e2
        assets.insert(ch.free("pos", [3, 0, 1]), st)
    prices["fix9"] = [9.0] * T
    prices["fix0"] = [0.0] * T
    scn = S.finish(gj, assets, prices)
    scn["meta"] = meta
    return scn


def build_cases(tier):
    K = 2 if tier == "quick" else 3
    cases, stats = merge_cases(family("c16", gen, K))
    stats["bound"] = dict(K=K)
    return cases, stats


def plain_scaled(scn, s):
    """the equivalent plain portfolio of a scaled-asset scenario at scale s"""
    out = copy.deepcopy(scn)

    def scale(b, f):
        for k in SCALABLE:
            if k in b and isinstance(b[k], (int, float)):
                b[k] = b[k] * f
        for k in ("min_take", "max_take"):
            if k in b:
                b[k] = dict(b[k], values=[v * f for v in b[k]["values"]])
        if "orders" in b:
            b["orders"] = dict(b["orders"], capa=[v * f for v in b["orders"]["capa"]])
        for x in b.get("portfolio", []):
            scale(x, f)
    for i, a in enumerate(out["assets"]):
        if a["type"] == "ScaledAsset":
            b = copy.deepcopy(a["base_asset"])
            scale(b, s / a["norm_scale"])
            b["name"] = a["name"]
            out["assets"][i] = b
    return out


def active_duration(scn):
    g = Grid.from_json(scn["grid"])
    a = [x for x in scn["assets"] if x["type"] == "ScaledAsset"][0]
    W = g.window(a.get("start"), a.get("end"), scn.get("date_tz"))
    return sum(g.dt[t] for t in W)


def flat_structured(scn):
    out = copy.deepcopy(scn)
    g = Grid.from_json(scn["grid"])
    from ref.grid import parse_instant
    def clip_orders(x, a):
        """an order book has no life time of its own: inside a structured asset with a life time its orders deliver in the steps of
        that life time only - in the flat portfolio the same is said by clipping the orders (orders left without any time drop out)"""
        o = x["orders"]
        keep = dict(start=[], end=[], capa=[], price=[])
        for s0, e0, c0, p0 in zip(o["start"], o["end"], o["capa"], o["price"]):
            s1 = max([v for v in (s0, a.get("start")) if v], key=lambda v: parse_instant(v, g.tz))
            e1 = min([v for v in (e0, a.get("end")) if v], key=lambda v: parse_instant(v, g.tz))
            if parse_instant(s1, g.tz) < parse_instant(e1, g.tz):
                for k_, v_ in (("start", s1), ("end", e1), ("capa", c0), ("price", p0)):
                    keep[k_].append(v_)
        x["orders"] = keep

    def flatten(a):
        inner = []
        for x in copy.deepcopy(a["portfolio"]):
            if x["type"] == "OrderBook":
                if a.get("start") or a.get("end"):
                    clip_orders(x, a)
                if x["orders"]["start"]:
                    inner.append(x)
                continue
            for key, pick in (("start", max), ("end", min)):
                vals = [v for v in (x.get(key), a.get(key)) if v]
                if vals:
                    x[key] = pick(vals, key=lambda v: parse_instant(v, g.tz))
            inner.extend(flatten(x) if x["type"] == "StructuredAsset" else [x])
        return inner
    for i, a in enumerate(out["assets"]):
        if a["type"] == "StructuredAsset":
            inner = flatten(a)
            out["assets"][i:i + 1] = inner
            return out, [x["name"] for x in inner], a
    raise ValueError


def run_case(case):
    scn = case["scenario"]
    meta = scn["meta"]
    tags = S.feature_tags(scn) + ["kind:" + meta["kind"]]
    ctag = ["kind:" + meta["kind"]]
    if meta["kind"] in BOOL_BASE:
        tags.append("scaled:bool_base")
    res = dict(status="ok", violations=[], counters={})
    V = res["violations"]
    run = ImplRun(scn, solver="SCIPY")
    res["fingerprint"] = "%s|%s" % (run.status, None if run.value is None else round(run.value, 6))
    res["outcome"] = run.status
    if meta["kind"].startswith("scaled"):
        mode = meta["mode"]
        ctag.append("mode:" + ("free" if mode == "free" else "fixed"))
        dur = active_duration(scn)
        sc = [x for x in scn["assets"] if x["type"] == "ScaledAsset"][0]

        def fixed_value(s):
            r = ImplRun(plain_scaled(scn, s), solver="SCIPY")
            return r, (None if r.status != "optimal" else r.value - s * meta["rate"] * dur)
        if run.status == "exception":
            V.append(viol("c16.raises", "scaled asset scenario raises %s at %s" % (run.error, run.site), tags + ["site:%s" % run.site], ctag + ["site:%s" % run.site]))
            return res
        if mode != "free":
            s = float(mode[5:])
            rp, want = fixed_value(s)
            if (run.status == "optimal") != (rp.status == "optimal"):
                V.append(viol("c16.status", "scaled asset at s=%.2f: %s, plain portfolio with capacities x s/S: %s" % (s, run.status, rp.status), tags, ctag))
                return res
            if run.status != "optimal":
                res.update(status="skip", validated=False)
                return res
            if not close(run.value, want, rel=1e-6, abs_=1e-6):
                V.append(viol("c16.fixed_value", "scaled asset at s=%.2f, S=%.1f, rate %.3f: value %.8f; plain portfolio x s/S minus s*rate*duration(%.2f) = %.8f"
                              % (s, sc["norm_scale"], meta["rate"], run.value, dur, want), tags, ctag))
            tab, _ = run.table()
            try:
                ref = R2.RefModel(plain_scaled(scn, s))
                pst, pval = ref.plug_in(tab)
                if pst != "optimal" or not close(pval, rp.value, abs_=1e-6 + ref.pin_slack):
                    V.append(viol("c16.fixed_dispatch", "the scaled run's dispatch is not an optimum of the plain portfolio x s/S (%s, %s vs %.8f)" % (pst, pval, rp.value), tags, ctag))
            except R2.Unsupported:
                pass
            res["nontrivial"] = bool(sum(float(np.abs(v).sum()) for (an, _), v in tab.items() if an == "sc") > 1e-6)
        else:
            if run.status != "optimal":
                res.update(status="skip", validated=False)
                return res
            sp = run.out["special"]
            row = sp[(sp["asset"] == "sc") & (sp["name"] == "scale")]
            if len(row) != 1:
                V.append(viol("c16.scale_output", "the special output has %d rows for the scale of the scaled asset" % len(row), tags, ctag))
                return res
            s_star = float(row["value"].iloc[0])
            if s_star < -1e-7 or s_star > 5 + 1e-7:
                V.append(viol("c16.scale_range", "returned scale %.6f outside [0, 5]" % s_star, tags, ctag))
            rp, want = fixed_value(s_star)
            if want is None or not close(run.value, want, rel=1e-6, abs_=1e-6):
                V.append(viol("c16.free_value", "free scale: value %.8f at returned scale %.6f; fixed-scale value there %s" % (run.value, s_star, want), tags, ctag))
            for s in (0.0, 1.0, 2.0, 3.0, 4.0, 5.0):
                rp, want = fixed_value(s)
                if want is not None and want > run.value + 1e-6 * (1 + abs(want)):
                    V.append(viol("c16.free_not_best", "free scale gives %.8f (s*=%.4f) but the fixed scale s=%.1f is worth %.8f" % (run.value, s_star, s, want), tags, ctag))
                    break
            tab, _ = run.table()
            res["nontrivial"] = bool(s_star > 1e-6)
        return res
    # structured
    flat, inner_names, st = flat_structured(scn)
    rf = ImplRun(flat, solver="SCIPY")
    if run.status == "exception":
        V.append(viol("c16.raises", "structured asset scenario raises %s at %s" % (run.error, run.site), tags + ["site:%s" % run.site], ctag + ["site:%s" % run.site]))
        return res
    if (run.status == "optimal") != (rf.status == "optimal"):
        V.append(viol("c16.status", "structured: %s, flat portfolio: %s %s" % (run.status, rf.status, rf.error or ""), tags, ctag))
        return res
    if run.status != "optimal":
        res.update(status="skip", validated=False)
        return res
    if not close(run.value, rf.value):
        V.append(viol("c16.struct_value", "structured asset: value %.8f, flat portfolio with the same assets %.8f" % (run.value, rf.value), tags, ctag))
    tab, _ = run.table()
    tabf, _ = rf.table()
    # external dispatch of the structured asset = sum of the inner assets' dispatch at the external nodes
    g = Grid.from_json(scn["grid"])
    ext_ok = True
    for n in st["nodes"]:
        got = tab.get(("st", n))
        want = np.zeros(g.T)
        for nm in inner_names:
            if (nm, n) in tabf:
                want = want + tabf[(nm, n)]
        if got is None:
            V.append(viol("c16.struct_column", "no dispatch column for the structured asset at node %s" % n, tags, ctag))
            ext_ok = False
        elif np.abs(got - want).max() > 1e-6 * (1 + np.abs(want).max()):
            ext_ok = False
    if not ext_ok and not V:
        # different optimal vertex or a real difference: plug the structured run into the flat reference model,
        # leaving the inner split free (only external flows and the other assets are pinned)
        try:
            ref = R2.RefModel(flat)
            pins = {k: v for k, v in tab.items() if k[0] != "st"}
            rows = []
            for (asset, node), d in ref.flows.items():
                if asset in inner_names:
                    continue
                arr = pins.get((asset, node))
                for t, e in d.items():
                    v = 0.0 if arr is None else float(arr[t])
                    rows.append((e, v - 1e-6 * (1 + abs(v)), v + 1e-6 * (1 + abs(v))))
            for n in st["nodes"]:
                for t in range(g.T):
                    e = {}
                    for nm in inner_names:
                        R2.expr_add(e, ref.flows.get((nm, n), {}).get(t, {}))
                    v = float(tab[("st", n)][t])
                    if e:
                        rows.append((e, v - 1e-6 * (1 + abs(v)), v + 1e-6 * (1 + abs(v))))
                    elif abs(v) > 1e-6:
                        rows.append(({}, v, v))
            stt, x, obj = ref.lp.solve(extra_rows=[r for r in rows if r[0]])
            val = None if stt != "optimal" else -(obj + ref.lp.const)
            if stt != "optimal" or not close(val, rf.value, abs_=1e-5):
                V.append(viol("c16.struct_dispatch", "the structured run's external dispatch is not an optimum of the flat portfolio (%s, %s vs %.8f)" % (stt, val, rf.value), tags, ctag))
            res["counters"]["plugin_used"] = 1
        except R2.Unsupported:
            pass
    res["nontrivial"] = bool(sum(float(np.abs(v).sum()) for (an, _), v in tab.items() if an == "st") > 1e-6)
    return res
