"""C19 - time grid and interval data: every step, and only the right interval, counts.

E3: starts x ends over a closed set of instants (aligned, unaligned, across both CET clock changes,
month boundaries) x frequencies x main time units x zones; for each grid all restriction windows over
grid-relative instants, coarse frequencies 2x/3x/4x, and all ordered lists of <= 2 (thorough 3)
intervals over 6 instants in every container form. Reference: R1 (ref/grid.py) + interval rule.
"""
import itertools
import datetime as dtm
import numpy as np
import pandas as pd

from mc.explore import chash
from ref.grid import Grid, parse_instant, parse_freq, UNIT_S, _points
from ref import lp as R2
from .common import viol, short_exc, exc_site

PROPERTY = "C19"
RULE = ("E3: (start, end) pairs over 13 instants x freq {15min,h,2h,6h,d,MS} x main unit {h,d,min} x zone {None,UTC,CET} (grids of 1..300 "
        "steps); per grid: 21 restriction windows over 6 grid-relative instants, coarse frequencies 2x/3x/4x on 4 windows, discount "
        "factors, all ordered lists of <= 2 (quick: plus every 97th list of 3; thorough: every 5th) intervals over 6 instants (plus one interval entirely before and one entirely behind the grid) x forms {list, array, DatetimeIndex, scalar} x "
        "{explicit, implicit end} x {naive, zone-aware data}, price arrays of length T; distinct = canonical grid case; non-trivial = "
        "the grid was built and compared")
ASSUMPTIONS = ["R1: fixed frequencies step in absolute time, d / MS in wall-clock calendar time; a partial last step is dropped",
               "implicit interval ends are only compared where every reading agrees (sorted starts, points before the last start)",
               "a coarse window that is not a multiple of the coarse step drops its tail like the main grid drops a partial last step",
               "overlapping intervals that share no grid point need not be rejected"]
EXPLANATION = "full product of grids x windows x interval lists against the independent grid model"
MIN_NONTRIVIAL_FRACTION = 0.5
MAX_S = {"quick": 900, "thorough": 7200}

INSTANTS = ["2021-01-01T00:00", "2021-01-15T00:00", "2021-03-01T00:00", "2021-03-27T00:00", "2021-03-27T06:00", "2021-03-28T00:00",
            "2021-03-28T05:00", "2021-03-29T00:00", "2021-03-30T00:30", "2021-10-30T00:00", "2021-10-31T00:00", "2021-11-01T12:00",
            "2021-11-02T00:00"]
FREQS = ["15min", "h", "2h", "6h", "d", "MS"]
FREQ_S = {"15min": 900, "h": 3600, "2h": 7200, "6h": 21600, "d": 86400, "MS": 30 * 86400}


def build_cases(tier):
    cases = []
    for (s, e) in itertools.combinations(INSTANTS, 2):
        span = (dtm.datetime.fromisoformat(e) - dtm.datetime.fromisoformat(s)).total_seconds()
        for freq in FREQS:
            n = span / FREQ_S[freq]
            if n < 1 or n > 300:
                continue
            for tz in (None, "UTC", "CET", "America/New_York"):
                for mtu in ("h", "d", "min"):
                    if tier == "quick" and mtu != "h" and (hash((s, e, freq, tz)) % 4):
                        continue
                    c = dict(start=s, end=e, freq=freq, mtu=mtu, tz=tz, lists=2 if tier == "quick" else 3)
                    c["key"] = chash(c)
                    cases.append(c)
    stats = dict(explorer="E3 product", states=len(cases), transitions=len(cases) * 25,
                 bound=dict(instants=len(INSTANTS), freqs=FREQS, interval_list_len=2 if tier == "quick" else 3))
    return cases, stats


def to_utc_ns(tp):
    """EAO time points -> list of UTC epoch seconds"""
    idx = pd.DatetimeIndex(tp)
    if idx.tz is not None:
        idx = idx.tz_convert("UTC").tz_localize(None)
    return [int(x) // 10 ** 9 for x in idx.asi8]


def ref_secs(pts):
    return [int(p.timestamp()) for p in pts]


def run_case(case):
    from eaopack.basic_classes import Timegrid
    res = dict(status="ok", violations=[], counters={})
    V = res["violations"]
    s, e, freq, mtu, tz = case["start"], case["end"], case["freq"], case["mtu"], case["tz"]
    tags = ["freq:" + freq, "mtu:" + mtu, "tz:%s" % tz]
    g = Grid(s, e, freq, mtu, tz)
    aligned = True
    if freq == "MS":
        aligned = dtm.datetime.fromisoformat(s).day == 1 and dtm.datetime.fromisoformat(s).hour == 0
        if not aligned:
            tags.append("unaligned_calendar_start")
    ctag = ["freq:" + ("MS" if freq == "MS" else "d" if freq == "d" else "fixed")] + (["unaligned_calendar_start"] if not aligned else [])
    try:
        tg = Timegrid(pd.Timestamp(s), pd.Timestamp(e), freq=freq, main_time_unit=mtu, timezone=tz)
    except AssertionError:
        res.update(status="skip", validated=False, outcome="constructor_rejects")
        return res
    except Exception as ex:
        V.append(viol("c19.grid_raises", "Timegrid(%s, %s, %s, %s, %s) raises %s" % (s, e, freq, mtu, tz, short_exc(ex)), tags, ctag))
        return res
    tp = to_utc_ns(tg.timepoints)
    T = len(tp)
    # ---- grid invariants (stated in the property) and equality with R1
    if T and any(b <= a for a, b in zip(tp[:-1], tp[1:])):
        V.append(viol("c19.increasing", "time points are not strictly increasing", tags, ctag))
    start_s, end_s = int(g.start.timestamp()), int(g.end.timestamp())
    if T and tp[0] != start_s:
        V.append(viol("c19.first_point", "first grid point %s is not the grid start %s (freq %s)" % (tg.timepoints[0], s, freq), tags, ctag))
    if T and tp[-1] >= end_s:
        V.append(viol("c19.last_point", "last grid point %s does not lie before the grid end %s" % (tg.timepoints[-1], e), tags, ctag))
    if T != g.T or tp != ref_secs(g.points):
        if aligned or freq != "MS":
            V.append(viol("c19.points", "grid points differ from the reference: %d vs %d points; first difference %s" % (
                T, g.T, next(((a, b) for a, b in zip(tp, ref_secs(g.points)) if a != b), None)), tags, ctag))
        res["nontrivial"] = True
        return res
    u = UNIT_S[mtu]
    dt_impl = np.asarray(tg.dt, float)
    real = np.array([(b - a) / u for a, b in zip(tp, tp[1:] + [int(g.all_points[-1].timestamp())])])
    if np.abs(dt_impl - real).max(initial=0) > 1e-9 * (1 + real.max(initial=0)):
        i = int(np.argmax(np.abs(dt_impl - real)))
        V.append(viol("c19.dt", "step %d: dt = %.6f, real elapsed time %.6f %s" % (i, dt_impl[i], real[i], mtu), tags, ctag))
    if np.abs(np.asarray(tg.Dt, float) - np.cumsum(real)).max(initial=0) > 1e-8 * (1 + real.sum()):
        V.append(viol("c19.Dt", "cumulative time differs from the cumulated real elapsed time", tags, ctag))
    # no full step lost before the end
    if freq not in ("MS",) and T:
        n, unit = parse_freq(freq)
        nxt = _points(g.all_points[-1], g.end + (g.end - g.start), freq, tz)
        if len(nxt) > 1 and nxt[1] <= g.end:
            V.append(viol("c19.lost_step", "a full step [%s, %s) before the grid end is missing" % (nxt[0], nxt[1]), tags, ctag))
    tg.set_wacc(0.3)
    if np.abs(np.asarray(tg.discount_factors, float) - np.array(g.discount(0.3))).max(initial=0) > 1e-10:
        V.append(viol("c19.discount", "discount factors differ from (1+wacc)^(-elapsed days to the end of the step/365)", tags, ctag))
    # ---- restricted grids
    if T >= 1:
        specs = [("before", 1), ("gp", 0), ("gp", min(1, T)), ("mid", min(1, T - 1)), ("gp", T), ("after", 1)]
        inst = []
        for sp in specs:
            x = g.instant(sp)
            if x not in inst:
                inst.append(x)
        inst.sort()
        wins = [(None, None)] + [(a, None) for a in inst] + [(None, b) for b in inst] + list(itertools.combinations(inst, 2))
        for (a, b) in wins:
            ai = None if a is None else pd.Timestamp(g.iso(a))
            bi = None if b is None else pd.Timestamp(g.iso(b))
            if tz:  # hand over zone-aware instants where the wall-clock form would be ambiguous
                ai = None if a is None else pd.Timestamp(a).tz_convert(tz)
                bi = None if b is None else pd.Timestamp(b).tz_convert(tz)
                if hash((a, b)) % 3 == 0:   # ... or the same instants expressed in another zone
                    other = "UTC" if tz != "UTC" else "Asia/Tokyo"
                    ai = None if a is None else pd.Timestamp(a).tz_convert(other)
                    bi = None if b is None else pd.Timestamp(b).tz_convert(other)
                    try:
                        tg.set_restricted_grid(ai, bi)
                        got_o = [int(i) for i in tg.restricted.I]
                        want_o = [i for i, p in enumerate(g.points) if (a is None or a <= p) and (b is None or p < b)]
                        if got_o != want_o:
                            V.append(viol("c19.restricted", "restricted grid for a window given in zone %s [%s, %s): indices %s, expected %s" % (other, ai, bi, got_o[:8], want_o[:8]), tags, ctag + ["other_zone"]))
                            break
                    except Exception as ex:
                        V.append(viol("c19.restricted_raises", "set_restricted_grid with a window in zone %s raises %s" % (other, short_exc(ex)), tags, ctag + ["other_zone"]))
                        break
                    ai = None if a is None else pd.Timestamp(a).tz_convert(tz)
                    bi = None if b is None else pd.Timestamp(b).tz_convert(tz)
                if hash((a, b)) % 2:  # and naive wall-clock time otherwise (localised by the grid)
                    try:
                        ai2 = None if a is None else pd.Timestamp(g.iso(a))
                        bi2 = None if b is None else pd.Timestamp(g.iso(b))
                        if (ai2 is None or ai2.tzinfo is None) and (bi2 is None or bi2.tzinfo is None):
                            ai, bi = ai2, bi2
                    except Exception:
                        pass
            want = [i for i, p in enumerate(g.points) if (a is None or a <= p) and (b is None or p < b)]
            try:
                tg.set_restricted_grid(ai, bi)
                r = tg.restricted
                got = [int(i) for i in r.I]
                ok = got == want and r.T == len(want) and to_utc_ns(r.timepoints) == [tp[i] for i in want] and \
                    np.allclose(np.asarray(r.dt, float), dt_impl[want]) and np.allclose(np.asarray(r.Dt, float), np.asarray(tg.Dt, float)[want]) and \
                    np.allclose(np.asarray(r.discount_factors, float), np.asarray(tg.discount_factors, float)[want])
                if not ok:
                    V.append(viol("c19.restricted", "restricted grid for [%s, %s): indices %s, expected %s (or its points / dt / Dt / discount factors are not the parent's)"
                                  % (ai, bi, got[:8], want[:8]), tags, ctag))
                    break
            except Exception as ex:
                V.append(viol("c19.restricted_raises", "set_restricted_grid(%s, %s) raises %s" % (ai, bi, short_exc(ex)), tags, ctag))
                break
        res["counters"]["windows"] = len(wins)
    # ---- coarse restricted grids
    if freq not in ("d", "MS") and T >= 2:
        n, unit = parse_freq(freq)
        for mult in (2, 3, 4):
            cf = "%d%s" % (n * mult, unit)
            cwins = [(None, None), (g.all_points[min(1, T)], None), (None, g.all_points[T - 1]), (g.instant(("before", 1)), None)]
            for (a, b) in cwins:
                ai = None if a is None else pd.Timestamp(a).tz_convert(tz) if tz else pd.Timestamp(g.iso(a))
                bi = None if b is None else pd.Timestamp(b).tz_convert(tz) if tz else pd.Timestamp(g.iso(b))
                groups = g.coarse(a, b, cf)
                starts_before = a is not None and a < g.start
                try:
                    tg.set_restricted_grid(ai, bi, cf)
                    r = tg.restricted
                    got = [[int(i) for i in G] for G in r.I_minor_in_major]
                    flat = [i for G in got for i in G]
                    if len(flat) != len(set(flat)):
                        V.append(viol("c19.coarse_overlap", "coarse intervals (%s) share fine steps: %s" % (cf, got), tags, ctag + ["coarse"]))
                    if got != [G for G in groups]:
                        V.append(viol("c19.coarse_partition", "coarse grid %s on window [%s, %s): fine steps per interval %s, expected %s" % (cf, ai, bi, got[:4], groups[:4]), tags, ctag + ["coarse"]))
                        break
                    # index consistency: the time point of a major step is the grid point of its first fine step
                    rtp = [pd.Timestamp(x) for x in r.timepoints]
                    wtp = [pd.Timestamp(tg.timepoints[G[0]]) for G in got]
                    if len(rtp) != len(wtp) or any(x != y for x, y in zip(rtp, wtp)):
                        V.append(viol("c19.coarse_points", "coarse grid %s on window [%s, %s): time points %s, grid points of the first fine steps %s"
                                      % (cf, ai, bi, [str(x) for x in rtp[:3]], [str(x) for x in wtp[:3]]), tags, ctag + ["coarse", "points"]))
                        break
                    sums = [float(dt_impl[G].sum()) for G in got]
                    if not np.allclose(np.asarray(r.dt, float), sums) or [int(i) for i in r.I] != [G[0] for G in got]:
                        V.append(viol("c19.coarse_dt", "coarse grid %s: dt %s, sums of the fine steps %s" % (cf, list(r.dt)[:4], sums[:4]), tags, ctag + ["coarse"]))
                        break
                except Exception as ex:
                    if any(len(G) == 0 for G in groups):
                        # a coarse interval without any fine step (window reaching out of the grid): no statement is made
                        res["counters"]["coarse_empty_interval_raises"] = res["counters"].get("coarse_empty_interval_raises", 0) + 1
                    else:
                        V.append(viol("c19.coarse_raises", "coarse restricted grid %s on [%s, %s) raises %s" % (cf, ai, bi, short_exc(ex)), tags, ctag + ["coarse"]))
                        break
            res["counters"]["coarse"] = res["counters"].get("coarse", 0) + len(cwins)
    # calendar coarse steps; on a daily grid in a zone with clock changes the fine steps inside one coarse step are unequal (23 h / 25 h days)
    if (freq in ("h", "2h", "6h") and T >= 8) or (freq == "d" and T >= 2):
        for cf in (("d", "2d") if freq != "d" else ("2d", "3d", "7d")):
            for (a, b) in [(None, None), (g.all_points[min(2, T)], None)]:
                # the coarse grid is anchored at the window start: use local midnights as starts so that calendar days are meant
                a2 = g.start if a is None else a
                w0 = a2.astimezone(__import__("zoneinfo").ZoneInfo(tz)) if tz else a2
                if (w0.hour, w0.minute) != (0, 0):
                    continue
                ai = None if a is None else (pd.Timestamp(a).tz_convert(tz) if tz else pd.Timestamp(g.iso(a)))
                groups = g.coarse(a, b, cf)
                if any(len(G) == 0 for G in groups):
                    continue
                try:
                    tg.set_restricted_grid(ai, None, cf)
                    r = tg.restricted
                    got = [[int(i) for i in G] for G in r.I_minor_in_major]
                    sums = [float(dt_impl[G].sum()) for G in got]
                    flat = [i for G in got for i in G]
                    if got != groups or len(flat) != len(set(flat)) or not np.allclose(np.asarray(r.dt, float), sums):
                        V.append(viol("c19.coarse_calendar", "coarse grid %s (calendar days) from %s: fine steps per interval %s (dt %s), expected %s (dt sums %s)"
                                      % (cf, ai, [len(G) for G in got], list(np.round(np.asarray(r.dt, float), 3)), [len(G) for G in groups],
                                         [round(float(dt_impl[G].sum()), 3) for G in groups]), tags, ctag + ["coarse_calendar"]))
                        break
                    res["counters"]["coarse_calendar"] = res["counters"].get("coarse_calendar", 0) + 1
                except Exception as ex:
                    V.append(viol("c19.coarse_raises", "coarse restricted grid %s from %s raises %s" % (cf, ai, short_exc(ex)), tags, ctag + ["coarse_calendar"]))
                    break
    # ---- interval data on a RESTRICTED grid whose window begins before the grid: a single start without end is valid for ever
    if 2 <= T <= 60:
        a0 = g.instant(("before", 1))
        ai = pd.Timestamp(a0).tz_convert(tz) if tz else pd.Timestamp(g.iso(a0))
        try:
            tg.set_restricted_grid(ai, None)
            r = tg.restricted
            s0 = g.instant(("before", 2))
            si = pd.Timestamp(s0).tz_convert(tz) if tz else pd.Timestamp(g.iso(s0))
            for form, d in (("scalar", dict(start=si, values=7.0)), ("list", dict(start=[si], values=[7.0])),
                            ("array", dict(start=np.array([si.tz_localize(None) if si.tzinfo is None else si.tz_convert(tz).tz_localize(None)], dtype="datetime64[ns]"), values=np.array([7.0])))):
                if form == "array" and tz:
                    continue
                got = r.values_to_grid(d)
                if len(got) != r.T or not np.all(got == 7.0):
                    V.append(viol("c19.assignment", "restricted grid starting before the grid, single start %s without end (%s): values %s, expected 7.0 everywhere"
                                  % (si, form, list(got[:6])), tags, ctag + ["interval", "restricted_single_start"]))
                    break
        except Exception as ex:
            V.append(viol("c19.values_raises", "values_to_grid on a restricted grid raises %s" % short_exc(ex), tags + ["exc:" + type(ex).__name__], ctag + ["interval", "restricted_single_start"]))
    # ---- interval data
    if 2 <= T <= 40:
        specs = [("before", 1), ("gp", 0), ("gp", 1), ("mid", 1), ("gp", T - 1), ("after", 1), ("before", 2), ("after", 2)]
        inst = sorted(set(g.instant(sp) for sp in specs))
        # all intervals over the six inner instants, plus the two that lie entirely before / behind the grid
        ivs = [iv for iv in itertools.combinations(inst, 2) if (iv[0] != inst[0] and iv[1] != inst[-1]) or iv in ((inst[0], inst[1]), (inst[-2], inst[-1]))]
        nl = case.get("lists", 2)
        lists = [[iv] for iv in ivs] + [list(p) for p in itertools.permutations(ivs, 2)]
        if nl >= 3:
            lists += [list(p) for p in itertools.permutations(ivs, 3)][::5]
        else:   # quick: a thin slice of the lists of three (unsorted, overlaps between intervals that are not neighbours in the list)
            lists += [list(p) for p in itertools.permutations(ivs, 3)][::97]
        n_checked = 0
        for li, L in enumerate(lists):
            forms = ["list", "array", "index"] if len(L) > 1 else ["list", "array", "index", "scalar"]
            form = forms[li % len(forms)]
            aware = bool(tz) and (li % 2 == 0)
            for implicit in ((False, True) if sorted(L) == L and all(L[i][0] < L[i + 1][0] for i in range(len(L) - 1)) else (False,)):
                vals = [float(k + 1) for k in range(len(L))]

                def conv(x):
                    ts = pd.Timestamp(x).tz_convert(tz) if tz else pd.Timestamp(x).tz_convert("UTC").tz_localize(None)
                    if tz and not aware:
                        w = pd.Timestamp(g.iso(x))
                        return w if w.tzinfo is None else None
                    return ts
                st = [conv(a) for a, b in L]
                en = [conv(b) for a, b in L]
                if any(x is None for x in st + en):
                    continue
                if form == "array" and not aware:
                    stc, enc = np.array(st, dtype="datetime64[ns]"), np.array(en, dtype="datetime64[ns]")
                    vc = np.array(vals)
                elif form == "array":
                    continue
                elif form == "index":
                    stc, enc, vc = pd.DatetimeIndex(st), pd.DatetimeIndex(en), list(vals)
                elif form == "scalar":
                    stc, enc, vc = st[0], en[0], vals[0]
                else:
                    stc, enc, vc = list(st), list(en), list(vals)
                d = dict(start=stc, values=vc)
                if not implicit:
                    d["end"] = enc
                # reference
                want, overlap = [None] * T, False
                ends = [b for a, b in L]
                if implicit:
                    ends = [L[i + 1][0] for i in range(len(L) - 1)] + [None]
                for (a, _), b, v in zip(L, ends, vals):
                    for i, p in enumerate(g.points):
                        if a <= p and (b is None or p < b):
                            if want[i] is not None:
                                overlap = True
                            want[i] = v
                compare = list(range(T))
                if implicit:
                    compare = [i for i, p in enumerate(g.points) if p < L[-1][0]] if len(L) > 1 else list(range(T))
                n_checked += 1
                try:
                    got = tg.values_to_grid(d)
                except ValueError as ex:
                    if "Overlapping" in str(ex):
                        if not overlap:
                            V.append(viol("c19.false_overlap", "intervals %s rejected as overlapping although no grid point lies in two of them" % ([(str(a), str(b)) for a, b in L],), tags, ctag + ["interval"]))
                            break
                        continue
                    V.append(viol("c19.values_raises", "values_to_grid raises %s for %s (form %s, implicit end %s)" % (short_exc(ex), [(str(a), str(b)) for a, b in L], form, implicit), tags, ctag + ["interval", form]))
                    break
                except Exception as ex:
                    xt = ["exc:" + type(ex).__name__] + (["implicit_end"] if implicit else []) + (["naive_data_on_zone_grid"] if (tz and not aware) else [])
                    V.append(viol("c19.values_raises", "values_to_grid raises %s for %s (form %s, implicit end %s, aware %s)" % (short_exc(ex), [(str(a), str(b)) for a, b in L], form, implicit, aware), tags + xt, ctag + ["interval"] + xt))
                    break
                if overlap and not implicit:
                    V.append(viol("c19.overlap_accepted", "intervals %s share a grid point but are accepted" % ([(str(a), str(b)) for a, b in L],), tags, ctag + ["interval"]))
                    break
                bad = [i for i in compare if not ((want[i] is None and np.isnan(got[i])) or (want[i] is not None and got[i] == want[i]))]
                if bad and not overlap:
                    i = bad[0]
                    V.append(viol("c19.assignment", "grid point %d (%s): value %s, expected %s for intervals %s (form %s, implicit end %s)"
                                  % (i, tg.timepoints[i], got[i], want[i], [(str(a), str(b)) for a, b in L], form, implicit), tags, ctag + ["interval"]))
                    break
            if V and V[-1]["oracle"].startswith("c19.") and V[-1]["oracle"] in ("c19.assignment", "c19.values_raises", "c19.overlap_accepted", "c19.false_overlap"):
                break
        res["counters"]["interval_lists"] = n_checked
        # gridded arrays pass through unchanged
        arr = np.arange(T, dtype=float) * 1.5 - 2
        try:
            pg = tg.prices_to_grid({"p": arr.copy(), "q": list(arr[::-1])})
            if list(pg.index) != list(tg.timepoints) or not np.array_equal(pg["p"].values, arr) or not np.array_equal(pg["q"].values, arr[::-1]):
                V.append(viol("c19.prices", "price arrays of length T come back changed from prices_to_grid", tags, ctag + ["prices"]))
        except Exception as ex:
            V.append(viol("c19.prices", "prices_to_grid raises %s for arrays of length T" % short_exc(ex), tags, ctag + ["prices"]))
    res["nontrivial"] = True
    res["outcome"] = "T=%d" % T
    res["fingerprint"] = chash([tp, list(np.round(dt_impl, 9))])
    return res
