#!/bin/bash
# usage: tools/run_mut_list.sh "<mutant dir>:<checks,comma>:<keep-id>" ...   (sequential; reports under /var/tmp/mutreports)
cd "$(dirname "$0")/.."
mkdir -p /var/tmp/mutreports
for e in "$@"; do
  IFS=: read -r dir checks keep <<<"$e"
  extra=""
  [ -n "$SKIP_TESTS" ] && extra="--skip-tests"
  ./validate_mutants.py "$dir" --checks "$checks" --keep-as "$keep" $extra > "/var/tmp/mutreports/$keep.json" 2>&1
  echo "$keep done rc=$? $(grep -c '"detected": true' /var/tmp/mutreports/$keep.json) detected"
done
