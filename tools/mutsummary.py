#!/usr/bin/env python3
import json,sys,os,glob
for f in sorted(glob.glob('/var/tmp/mutreports/*.json')):
    if len(sys.argv)>1 and not any(a in f for a in sys.argv[1:]): continue
    try:
        r=json.load(open(f))
    except Exception as e:
        print(os.path.basename(f),'UNPARSABLE', open(f).read()[-200:].replace('\n',' ')); continue
    det=[ (k,v['detected']) for k,v in r.get('checks',{}).items()]
    print('%-10s applies=%s tests=%s demo=%s/%s det=%s | %s' % (os.path.basename(f)[:-5], r.get('applies'), r.get('tests_pass'), r.get('demo_with_patch_rc'), r.get('demo_on_repo_rc'), det, (r.get('summary') or '')[:70]))
