#!/bin/bash
# run every check of a tier sequentially; summary lines to stdout
tier=${1:-quick}
cd "$(dirname "$0")/.."
ids=${ORDER:-$(for i in $(seq -w 1 20); do echo C$i; done)}
for id in $ids; do
  s=$(date +%s)
  out=$(./check $id --tier $tier 2>&1); rc=$?
  e=$(date +%s)
  echo "$id rc=$rc $((e-s))s $(echo "$out" | grep -E "^\[$id" | tail -1)"
  echo "$out" | grep -E "^(VIOLATION|KNOWN-FINDING|VACUOUS|FRAMEWORK|CAPPED|NONDET)" | cut -c1-160
done
