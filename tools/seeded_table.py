#!/usr/bin/env python3
"""Markdown table of the seeded property-breaking changes under /verif/seeded and which checks catch them."""
import json, glob, os
rows = []
for d in sorted(glob.glob(os.path.join(os.path.dirname(os.path.dirname(os.path.abspath(__file__))), "seeded", "*"))):
    m = json.load(open(os.path.join(d, "meta.json")))
    v = m.get("validated", {})
    det = [k.split("@")[0] for k, x in v.get("checks", {}).items() if x.get("detected")]
    miss = [k.split("@")[0] for k, x in v.get("checks", {}).items() if not x.get("detected")]
    rows.append("| %s | %s | %s | %s | %s |" % (os.path.basename(d), m.get("property"), (m.get("summary") or "").replace("|", "/")[:110],
                                               (m.get("needs") or "").replace("|", "/")[:110], ", ".join(det) if det else ("MISSED by " + ", ".join(miss))))
print("| id | property | change | needs | caught by |\n|---|---|---|---|---|")
print("\n".join(rows))
