#!/usr/bin/env python3
import json, os, glob
V = os.path.dirname(os.path.dirname(os.path.abspath(__file__)))
print("| id | tier | states | transitions | executions | validated vs. impl | distinct non-trivial | outcomes | known findings hit | wall s |")
print("|---|---|---|---|---|---|---|---|---|---|")
for f in sorted(glob.glob(os.path.join(V, "evidence", "C*.json"))):
    e = json.load(open(f)); c = e["coverage"]
    print("| %s | %s | %d | %d | %d | %d | %d | %d | %s | %.0f |" % (e["property_id"], e["tier"], c["states"], c["transitions"], c["evaluations"],
          c["traces_validated_against_impl"], c["distinct_nontrivial"], c.get("distinct_outcomes", 0), ", ".join(c.get("known_findings_hit", [])) or "-", e["wall_s"]))
