#!/usr/bin/env python3
"""refresh the generated tables of DESIGN.md (coverage from evidence/, seeded changes from seeded/)"""
import os, re, subprocess
V = os.path.dirname(os.path.dirname(os.path.abspath(__file__)))
p = os.path.join(V, "DESIGN.md")
s = open(p).read()
for name, tool in (("COVERAGE", "coverage_table.py"), ("SEEDED", "seeded_table.py")):
    tab = subprocess.check_output(["python3", os.path.join(V, "tools", tool)]).decode()
    s = re.sub(r"<!-- %s-BEGIN -->.*?<!-- %s-END -->" % (name, name), "<!-- %s-BEGIN -->\n%s<!-- %s-END -->" % (name, tab, name), s, flags=re.S)
open(p, "w").write(s)
print("DESIGN.md tables refreshed")
