#!/usr/bin/env python3
"""Generate /verif/MANIFEST.json from the table below (keeps the manifest valid and current)."""
import json, os
VERIF = os.path.dirname(os.path.dirname(os.path.abspath(__file__)))

CHECKS = {
 "C01": ("E1 deviation-bounded enumeration of portfolios (all multi-row asset types, mono/split, wrapped); nodal balance per node and step evaluated on the dispatch output of every solution",
         "node membership from the scenario; HiGHS vertex solutions, tol 1e-6", "bounded exhaustive scenario enumeration + invariant on every execution", "2 C01"),
 "C02": ("E1 enumeration of portfolios over contracts/transports/storages/multi-commodity; every scenario solved by the real code and by an independent textbook LP (R2, HiGHS); equal status, equal value, plug-in feasibility of EAO's dispatch",
         "R2 reference model (ref/lp.py) calibrated on the suite's hand values; alphabets of mc/scenario.py", "bounded exhaustive scenario enumeration against a reference model (differential + plug-in oracle)", "2 C02"),
 "C04": ("E1 enumeration incl. order books, periodic/coarse, scaled/structured, plant/CHP, split; value = summary = sum DCF; per-asset DCF = -c.x on its own variable block; per-asset cash flow recomputed from dispatch by R2; the same identities for a robust optimisation (target in three spellings) and for the two-stage stochastic problem made from the portfolio (make_slp -> optimize -> extract_output) on the K<=1 layer",
         "ownership from concatenation order / R2, never from the mapping", "bounded exhaustive scenario enumeration + accounting identities on every execution", "2 C04"),
 "C05": ("E1 x E3: one storage with <= K menu deviations x closed set of price words, in one/two-node portfolios; physical level simulated (R3) from charge/discharge of every solution; bounds, end level, rates, MIP options, reported series",
         "R3 simulator; block semantics as documented; tolerance 1e-6", "bounded exhaustive scenario enumeration + physical simulation oracle", "2 C05"),
 "C07": ("E1 enumeration of the union of all scenario spaces, build only: structural invariants of the property on every stand-alone and assembled problem (multiset equality with stand-alone assets, block placement, nodal rows)",
         "stand-alone asset problems from fresh objects as reference; c,l,u concatenated in portfolio order", "bounded exhaustive scenario enumeration + structural invariants on every assembled problem", "2 C07"),
 "C06": ("Part A: all 2^T on/off words x (min runtime, min downtime, initial state, start variables) pinned on the real plant formulation, feasible <=> R4 automaton accepts; Part B: E1 over the plant/CHP menu x price words, property predicates on every optimum and exactness against the best admissible pattern LP; Part C: start / shutdown ramp profiles (plant and CHP, hourly and half-hourly grid with ramp_freq = grid frequency, lists / arrays / lower bounds only) with a bracket oracle between the strict and the lenient reading; Part W: units existing in part of the horizon",
         "R4 automaton + pattern LP; wacc 0; profiles only where ramp_freq equals the grid frequency; durations rounded up to steps", "explicit-state automaton with every accepted and rejected word replayed on the implementation + bounded exhaustive scenario enumeration", "2 C06"),
 "C08": ("E3 full product: 36 half-open intervals over 9 instants around the horizon x 22 element kinds (asset windows of every type incl. scaled assets with the life time on the base asset only and structured assets with the life time on the inner assets only, orders, take periods) x base portfolios x list positions; window predicate, with/without differential for out-of-horizon elements, prorating metamorphic check",
         "documented window rule (grid points in [s,e)); R2 plug-in for the differential", "full product enumeration + differential / metamorphic oracles on every execution", "2 C08"),
 "C20": ("E1 over order lists (1..3 orders x 13-15 placements x side x price level), full execution, companion portfolios, book position, 7 grids incl. hourly steps across the autumn clock change; fractions, per-step delivery, payment, value vs. one-variable-per-order reference (R2, MILP for full execution), inertness differential",
         "R2 reference; fractions read from output['special']", "bounded exhaustive scenario enumeration against a reference model", "2 C20"),
 "C09": ("E3 product: 7 base portfolios (mixed wacc + two-node storage, transport + spread contract, structured asset, linked plants MIP, two assets sharing a coarser grid with different wacc, order book with an order behind the grid, structured asset with own life time whose wrapped portfolio is permuted as well) x all permutations x adversarial asset / node renamings x grids T=4 and T=12; value, relabelled dispatch and DCF compared with the base run (plug-in oracle under degeneracy)",
         "R2 plug-in where it models the base; otherwise uniqueness decided by two solvers", "full product enumeration + differential oracle against the base run", "2 C09"),
 "C10": ("E2 explicit-state BFS over histories of API calls (25 operations, depth 3 quick / 4 thorough) on one set of objects with shared grids, interval-dict parameters and shared inner assets; canonical state hashing with merging; after every transition the returned problem equals the one fresh objects return",
         "canonical state = everything later calls can observe (mc/history.py); module-level state assumed absent", "explicit-state BFS over API histories with state merging; fresh-object equality on every transition", "2 C10"),
 "C11": ("E1 over 17 asset/portfolio classes x parameter forms (list of time stamps, list of python datetimes, datetime64 array, object array, DatetimeIndex, series name) x naive/CET/UTC dates x saved before/after a set-up; load(save(x)) builds, gives the identical problem on 3 grids, save is a fixpoint, own grid keeps points and zone and still optimises",
         "problem identity by canonical hash; exceptions agree only if the original raises the same type", "bounded exhaustive enumeration + round-trip equality on every case", "2 C11"),
 "C13": ("E1 over every asset type accepting freq / periodicity (one and two variables per step, several rows per variable) x coarse frequencies / periodicities (with duration, period >= horizon) x windows x parameter deviations on three grids; constant rate / periodic dispatch predicates, value and plug-in against the fine reference model with equality rows",
         "R2 fine model + equalities, averaged prices / limits as documented; no holding costs with coarse frequency; uniform steps in merged groups", "bounded exhaustive scenario enumeration against a reference model", "2 C13"),
 "C03": ("E3 full product of tiny OptimProblems (2 variables, <= 2 rows, every pair of row types, 9 bound pairs incl. every variable fixed by its bounds, boolean flag sets incl. non-0/1 bounds, 4 mapping variants) x every available solver choice x the history [soft solve, normal solve], against the exact rational optimum (vertex enumeration); plus assembled portfolio problems (LP/MIP, mono/split) x solvers against HiGHS on the raw arrays",
         "R5 exact oracle; booleans are {0,1} as in the cvxpy interface; SCS/OSQP tolerance 2e-3; ortools interface not installed", "full product enumeration of problems x solvers against an exact oracle", "2 C03"),
 "C12": ("E1 portfolios generated three times from the same choice vector with rates and durations expressed in h, d and min; value equality for every pair of units and dispatch equality through the plug-in oracle; grids with unequal steps (DST days, months, autumn hours): must-run volumes = rate x real elapsed time, Timegrid.dt = R1, value = R2",
         "generator converts rates and durations; R1 elapsed time from UTC instants", "bounded exhaustive scenario enumeration + metamorphic oracle over all unit pairs", "2 C12"),
 "C15": ("E3 product of 3-step histories [set-up+optimise, rebuild with fixed window, re-optimise]: 11 portfolios (incl. several rows per variable, MIP, order book, coarse / periodic, structured, scaled asset with a free scale variable, CHP) x all 16 index masks (array / list) + 8 date positions (datetime / date) x new prices x grid passed / set previously; exact bound equality, re-solve equality, value equality with unchanged prices",
         "a variable belongs to the window if one of its rows does; the step at the date itself is left open", "full product enumeration of windows x portfolios over 3-step histories", "2 C15"),
 "C16": ("E1 over scaled storage / contract / must-run / take contract / transport / multi-commodity contract / order book / structured asset / assets with boolean variables at fixed scales and free scale, normalisations, cost rates, windows, and structured assets with one or two external nodes, own and inner windows, an inner order book, an inner plant, a nested structured asset, an inner scaled asset; differential against the generator-built plain portfolio x s/S (value minus s x rate x active duration, dispatch via plug-in), free scale = best fixed scale, structured = flat portfolio",
         "scaled and base asset share the window; R1 active duration; R2 plug-in", "bounded exhaustive scenario enumeration + differential oracle against the equivalent plain portfolio", "2 C16"),
 "C18": ("E1 LP portfolios (incl. split mode, structured wrappers, nodes without dispatch at some steps, hourly steps across the autumn clock change, a penalty contract with a cost coefficient of 1e6, split runs with intervals in which nothing or only the internal part of a structured asset is active) x EVERY (node, step) with a reported price x both signs of a small injection realised by an extra must-run contract; V(d) <= V(0) + price*d on every perturbation",
         "valid for any optimal dual (degeneracy-proof); V(d) from the real code with HiGHS; d = +-0.05", "bounded exhaustive scenario enumeration x all (node, step, sign) perturbations", "2 C18"),
 "C14": ("E1 portfolios x interval sizes {12h, d, 5h, 2d} x horizons (aligned, offset start, partial last step, autumn clock change, 3 days); split value = sum of per-interval R2 optima with original elapsed time, balance and per-interval plug-in on the original grid, equality with the unsplit optimum when nothing couples, <= unsplit with start=end storages",
         "R2 per interval (steps subset, original Dt); coupling classified from the scenario", "bounded exhaustive scenario enumeration against per-interval reference models", "2 C14"),
 "C19": ("E3 full product of grids ((start, end) over 13 instants x 6 frequencies x 3 main units x 3 zones) x 21 restriction windows x coarse frequencies 2x/3x/4x x all ordered lists of <= 2 (thorough 3) intervals over 6 instants plus one interval before and one behind the grid in every container form, explicit / implicit ends, naive / aware data, against the independent grid model R1 and the interval rule",
         "R1 (datetime + zoneinfo); implicit ends compared only where every reading agrees; partial coarse tail dropped", "full product enumeration against an independent reference model", "2 C19"),
 "C17": ("E3 full product: 9 LP portfolios (incl. transport with a cost series, a structured asset with internal variables, coarse / periodic / inactive assets) x every present/future boundary x all multisets of 1..3 future price patterns out of 7; cost vectors alone for 21 asset kinds x 6 life times; robust optimisation of tiny problems with 1..n+1 samples (also as many samples as variables); EEV_j <= SLP <= mean of scenario optima, SLP = exact extensive form built from the arrays, SLP = deterministic when scenarios coincide, column count; robust: worst case >= every scenario optimum's worst case, <= smallest scenario optimum, = exact max-min LP; cost samples = cost vectors of a set-up with the same prices",
         "all reference quantities by HiGHS on EAO's own arrays, independent of make_slp and the robust target", "full product enumeration + defining inequalities and exact extensive-form oracle", "2 C17"),
}

def main():
    props = [json.loads(l) for l in open(os.path.join(VERIF, "properties.jsonl"))]
    checks, na = [], []
    for p in props:
        pid = p["id"]
        if pid in CHECKS:
            text, note, tech, ref = CHECKS[pid]
            checks.append(dict(property_id=pid, quick_cmd="./check %s --tier quick" % pid,
                               thorough_cmd="./check %s --tier thorough" % pid,
                               evidence_file="evidence/%s.json" % pid,
                               replay_cmd_template="./check %s --replay {path}" % pid,
                               engine="mc", level_claimed=dict(category="model_checking", text=text, design_ref="DESIGN.md section " + ref),
                               level_note=note, technique=tech))
        else:
            na.append(dict(property_id=pid, reason="check not built yet (work in progress, see DESIGN.md section 7); no claim is made"))
    m = dict(version=1, setup_cmd="./check --selftest",
             hooks=dict(guard="EAO_VERIF", enable="no source hooks are needed: every property is observed through the public API; checks import eaopack from /repo's working tree (PYTHONPATH)",
                        baseline_off_cmd="cd /repo && /venv/bin/python -m pytest -q -p no:cacheprovider --timeout=900 -n 8",
                        source_commits=[], add_only=True),
             engines=[dict(name="mc", path="mc/", serves_properties=sorted(CHECKS),
                           kind_free_text="hand-written explicit explorers for Python: E1 deviation-bounded choice-tree search, E2 BFS over API histories, E3 full products; real code executed on every enumerated case, compared with independent reference models (ref/)")],
             checks=checks,
             notes="Exit codes: 0 held on everything explored, 1 VIOLATION, 2 framework error / vacuous exploration. Known findings: known_findings.json. See DESIGN.md.",
             not_applicable=na)
    json.dump(m, open(os.path.join(VERIF, "MANIFEST.json"), "w"), indent=1)
    print("claimed:", [c["property_id"] for c in checks], "unclaimed:", len(na))

if __name__ == "__main__":
    main()
