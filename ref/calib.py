"""Calibration of the reference models against values computed by hand (no eaopack involved).

A mismatch here is a FRAMEWORK error (the reference is wrong), never a property violation.
"""
from .grid import Grid
from . import lp as R2
from . import uc
from . import exactlp
from fractions import Fraction as F

G4 = dict(start="2021-01-01T00:00", end="2021-01-02T00:00", freq="6h", mtu="h", tz=None)


def _v(scn, **opt):
    st, v = R2.RefModel(scn, options=opt or None).optimum()
    assert st == "optimal", st
    return v


def main():
    # R1: DST days, discount at the END of the step with a 365 day year
    g = Grid("2021-03-27T00:00", "2021-03-30T00:00", "d", "h", "CET")
    assert g.dt == [24.0, 23.0, 24.0]
    g = Grid("2021-01-01T00:00", "2022-01-01T00:00", "d", "d", None)
    assert abs(g.discount(0.1)[-1] - 1 / 1.1) < 1e-12 and g.T == 365
    # contract: buy 5/h at price 1, sell 5/h at 5,2,6 ... a pure market cannot earn anything alone (balance)
    mkt = dict(type="SimpleContract", name="m", nodes=["n"], price="p", min_cap=-5.0, max_cap=5.0)
    assert abs(_v(dict(grid=G4, prices=dict(p=[1, 5, 2, 6]), assets=[mkt]))) < 1e-9
    # + free supply of 2/h: sell 2*6 per step at the market price: 12*(1+5+2+6) = 168
    sup = dict(type="SimpleContract", name="s", nodes=["n"], min_cap=0.0, max_cap=2.0)
    assert abs(_v(dict(grid=G4, prices=dict(p=[1, 5, 2, 6]), assets=[mkt, sup])) - 168.0) < 1e-9
    # storage size 8, rates 1/2 per h: charge 6@1, sell 4@5, charge 6@2 (full), sell 8@6: -6+20-12+48 = 50; with eff 0.9: charge 6 (5.4 stored), sell 2.8@5, charge 6, sell 8@6: -6+14-12+48 = 44
    sto = dict(type="Storage", name="x", nodes=["n"], size=8.0, cap_in=1.0, cap_out=2.0, start_level=0.0, end_level=0.0)
    assert abs(_v(dict(grid=G4, prices=dict(p=[1, 5, 2, 6]), assets=[mkt, sto])) - 50.0) < 1e-9
    assert abs(_v(dict(grid=G4, prices=dict(p=[1, 5, 2, 6]), assets=[mkt, dict(sto, eff_in=0.9)])) - 44.0) < 1e-9
    # spread: supply through a contract with extra costs 0.5 at price 0: sells only where p > 0.5: 12*(0.5+4.5+1.5+5.5) = 144
    sup2 = dict(type="SimpleContract", name="s", nodes=["n"], price="z", extra_costs=0.5, min_cap=-1.0, max_cap=2.0)
    assert abs(_v(dict(grid=G4, prices=dict(p=[1, 5, 2, 6], z=[0, 0, 0, 0]), assets=[mkt, sup2])) - 144.0) < 1e-9
    # transport with efficiency 0.8 and cost 0.1 from a node with free supply (3/h) to the market node: (p*0.8-0.1)*18 per step
    tr = dict(type="Transport", name="t", nodes=["a", "n"], min_cap=0.0, max_cap=3.0, efficiency=0.8, costs_const=0.1)
    free = dict(type="SimpleContract", name="f", nodes=["a"], min_cap=0.0, max_cap=10.0)
    assert abs(_v(dict(grid=G4, prices=dict(p=[1, 5, 2, 6]), assets=[mkt, tr, free])) - sum((p * 0.8 - 0.1) * 18 for p in [1, 5, 2, 6])) < 1e-9
    # min take of 30 over the whole day from a supplier at price 4: forced to buy 30; best at p=5 and 6 (12 each) + 6 at 2 -> 12*1+12*2-6*2 = 24
    tk = dict(type="Contract", name="s", nodes=["n"], price="q", min_cap=0.0, max_cap=2.0,
              min_take=dict(start=["2021-01-01T00:00"], end=["2021-01-02T00:00"], values=[30.0]))
    assert abs(_v(dict(grid=G4, prices=dict(p=[1, 5, 2, 6], q=[4, 4, 4, 4]), assets=[mkt, tk])) - 24.0) < 1e-9
    # take period reaching 24h beyond the horizon: prorated to 15, no longer binding: buy 12 at 5 and 12 at 6: 12*1+12*2 = 36
    tk2 = dict(tk, min_take=dict(start=["2021-01-01T00:00"], end=["2021-01-03T00:00"], values=[30.0]))
    assert abs(_v(dict(grid=G4, prices=dict(p=[1, 5, 2, 6], q=[4, 4, 4, 4]), assets=[mkt, tk2])) - 36.0) < 1e-9
    # order book: buy order 2/h at 2.5 over steps 1,2 (prices 5, 2): executed fully: 12*(5-2.5)+12*(2-2.5) = 24
    ob = dict(type="OrderBook", name="o", nodes=["n"], orders=dict(start=["2021-01-01T06:00"], end=["2021-01-01T18:00"], capa=[2.0], price=[2.5]))
    assert abs(_v(dict(grid=G4, prices=dict(p=[1, 5, 2, 6]), assets=[mkt, ob])) - 24.0) < 1e-9
    # automaton
    assert uc.accepts((0, 1, 1, 0, 0), 2, 2, ("off", 10)) and not uc.accepts((0, 1, 0, 1, 1), 2, 2, ("off", 10))
    assert not uc.accepts((0, 1, 1, 1, 1), 0, 3, ("off", 1)) and uc.accepts((0, 0, 1, 1, 1), 0, 3, ("off", 1))
    assert not uc.accepts((0, 0, 0, 0, 0), 3, 0, ("on", 1)) and uc.accepts((1, 1, 0, 0, 0), 3, 0, ("on", 1))
    # exact LP: max x+y s.t. x+2y<=2, 0<=x<=1, 0<=y<=3 -> x=1,y=1/2 value 3/2
    r = exactlp.solve([F(-1), F(-1)], [F(0), F(0)], [F(1), F(3)], [[1, 2]], [F(2)], "U", [])
    assert r[0] == F(3, 2), r
    r = exactlp.solve([F(-1), F(-1)], [F(0), F(0)], [F(1), F(3)], [[1, 2]], [F(2)], "U", [1])
    assert r[0] == F(1), r   # y boolean: (y=1, x=0) or (y=0, x=1): value 1
