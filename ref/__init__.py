"""Reference models. Nothing in this package imports eaopack."""
