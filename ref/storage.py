"""R3 - physical storage simulator (forward simulation of the fill level)."""
from .lp import storage_blocks


def simulate(a, g, W, charge, discharge, date_tz=None):
    """a: storage json; W: active steps; charge/discharge: {t: volume >= 0}.
    returns (levels {t: level at the END of step t}, blocks)"""
    eff = float(a.get("eff_in", 1.0))
    inflow = float(a.get("inflow", 0.0))
    start = float(a.get("start_level", 0.0))
    blocks = storage_blocks(g, a, W, date_tz)
    lev = {}
    for B in blocks:
        L = start
        for t in B:
            L = L + eff * charge.get(t, 0.0) - discharge.get(t, 0.0) + inflow * g.dt[t]
            lev[t] = L
    return lev, blocks


def check(a, g, W, charge, discharge, tol, date_tz=None, groups=None):
    """physical invariants of C05; returns list of (oracle, message)"""
    out = []
    size = float(a["size"])
    end = float(a.get("end_level", 0.0))
    cin, cout = float(a["cap_in"]), float(a["cap_out"])
    lev, blocks = simulate(a, g, W, charge, discharge, date_tz)
    for B in blocks:
        for k, t in enumerate(B):
            if lev[t] < -tol or lev[t] > size + tol:
                out.append(("level_bounds", "step %d: physical level %.6f outside [0, %g]" % (t, lev[t], size)))
                break
        if B and abs(lev[B[-1]] - end) > tol:
            out.append(("end_level", "last step %d of block: level %.6f, end level %g" % (B[-1], lev[B[-1]], end)))
    for t in W:
        if charge.get(t, 0.0) > cin * g.dt[t] + tol:
            out.append(("rate", "step %d: charge %.6f > cap_in*dt %.6f" % (t, charge[t], cin * g.dt[t])))
            break
        if discharge.get(t, 0.0) > cout * g.dt[t] + tol:
            out.append(("rate", "step %d: discharge %.6f > cap_out*dt %.6f" % (t, discharge[t], cout * g.dt[t])))
            break
    if a.get("no_simult_in_out"):
        for t in W:
            if charge.get(t, 0.0) > tol and discharge.get(t, 0.0) > tol:
                out.append(("simult", "step %d: charge %.6f and discharge %.6f in the same step" % (t, charge[t], discharge[t])))
                break
    md = a.get("max_store_duration")
    if md is not None:
        # a run of steps with non-zero end-of-step level may not last longer than md (sum of step lengths)
        # (a storage on its own coarser grid: counted on ITS steps - groups of portfolio steps - with the level at their ends)
        units = [[t] for t in W] if groups is None else [list(G) for G in groups if G]
        run = []
        for G in units + [None]:
            if G is not None and lev[G[-1]] > tol:
                run.append(G)
            else:
                dur = sum(g.dt[x] for G_ in run for x in G_)
                if run and dur > md + 1e-9:
                    out.append(("duration", "level non-zero during steps %d..%d (%.3f time units) > max_store_duration %g"
                                % (run[0][0], run[-1][-1], dur, md)))
                    break
                run = []
    return out, lev, blocks
