"""R5 - exact rational solution of tiny LPs / MIPs by vertex enumeration (n <= 3 variables).

max -c.x  s.t.  l <= x <= u (finite), rows A_i.x {<=,>=,=} b_i, flagged variables in {0,1}.
All arithmetic in fractions.Fraction; no solver involved.
"""
import itertools
from fractions import Fraction as F


def _solve_square(M, r):
    """exact solution of M x = r (n x n), None if singular"""
    n = len(M)
    A = [list(map(F, row)) + [F(r[i])] for i, row in enumerate(M)]
    for col in range(n):
        piv = None
        for i in range(col, n):
            if A[i][col] != 0:
                piv = i
                break
        if piv is None:
            return None
        A[col], A[piv] = A[piv], A[col]
        pv = A[col][col]
        A[col] = [v / pv for v in A[col]]
        for i in range(n):
            if i != col and A[i][col] != 0:
                f = A[i][col]
                A[i] = [a - f * b for a, b in zip(A[i], A[col])]
    return [A[i][n] for i in range(n)]


def feasible(x, l, u, A, b, types, tol=F(0)):
    for j, v in enumerate(x):
        if v < l[j] - tol or v > u[j] + tol:
            return False
    for row, bi, t in zip(A, b, types):
        s = sum(F(a) * v for a, v in zip(row, x))
        if t == "U" and s > bi + tol:
            return False
        if t == "L" and s < bi - tol:
            return False
        if t in ("S", "N") and abs(s - bi) > tol:
            return False
    return True


def solve_lp(c, l, u, A, b, types, fixed=None):
    """exact optimum of the LP with some variables fixed (dict j -> value). returns (value, x) or None if infeasible"""
    n = len(c)
    fixed = fixed or {}
    l = [F(fixed[j]) if j in fixed else F(l[j]) for j in range(n)]
    u = [F(fixed[j]) if j in fixed else F(u[j]) for j in range(n)]
    if any(l[j] > u[j] for j in range(n)):
        return None
    b = [F(x) for x in b]
    # candidate active constraints: bounds and rows as equalities
    cands = []
    for j in range(n):
        e = [0] * n
        e[j] = 1
        cands.append((e, l[j]))
        if u[j] != l[j]:
            cands.append((e, u[j]))
    for row, bi in zip(A, b):
        cands.append((list(row), bi))
    best = None
    for combo in itertools.combinations(range(len(cands)), n):
        M = [cands[i][0] for i in combo]
        r = [cands[i][1] for i in combo]
        x = _solve_square(M, r)
        if x is None:
            continue
        if not feasible(x, l, u, A, b, types):
            continue
        val = -sum(F(ci) * xi for ci, xi in zip(c, x))
        if best is None or val > best[0]:
            best = (val, x)
    return best


def solve(c, l, u, A, b, types, bools=()):
    """exact optimum with flagged variables in {0,1}; returns (value, x) or None"""
    bools = list(bools)
    best = None
    for assign in itertools.product((0, 1), repeat=len(bools)):
        fixed = dict(zip(bools, assign))
        if any(F(v) < F(l[j]) or F(v) > F(u[j]) for j, v in fixed.items()):
            continue
        r = solve_lp(c, l, u, A, b, types, fixed)
        if r is not None and (best is None or r[0] > best[0]):
            best = r
    return best
