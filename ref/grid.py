"""R1 - independent time grid model (datetime + zoneinfo only, no pandas, no eaopack).

Rules (from the Timegrid docstring and pandas' documented date_range semantics):
  * fixed frequencies ('15min', 'h', '6h', ...) step in absolute (UTC) time,
  * 'd' steps in wall-clock calendar days, 'MS' are calendar month starts,
  * grid points are start + k*step <= end without the last one (so a partial last step is
    dropped), step length = real elapsed time to the next point / main time unit,
  * Dt = cumulative elapsed time to the END of each step,
  * discount factor of a step = (1+wacc)^(-Dt in days / 365),
  * an asset window [start, end) selects the grid points t with start <= t < end.
"""
import re
from datetime import datetime, timedelta, timezone
from zoneinfo import ZoneInfo

UTC = timezone.utc
UNIT_S = {"h": 3600.0, "d": 86400.0, "min": 60.0, "s": 1.0}


def parse_freq(freq):
    m = re.fullmatch(r"(\d*)\s*(min|h|d|D|H|MS|W)", freq)
    if not m:
        raise ValueError("unsupported freq %r" % freq)
    n = int(m.group(1)) if m.group(1) else 1
    unit = m.group(2)
    unit = {"D": "d", "H": "h"}.get(unit, unit)
    return n, unit


def freq_seconds(freq):
    n, unit = parse_freq(freq)
    if unit == "MS":
        raise ValueError("MS has no fixed length")
    if unit == "W":
        return n * 7 * 86400.0
    return n * UNIT_S[unit]


def parse_instant(s, tz):
    """ISO string (naive -> interpreted in tz, or UTC if tz is None) -> aware UTC datetime."""
    if s is None:
        return None
    d = datetime.fromisoformat(s)
    if d.tzinfo is None:
        d = d.replace(tzinfo=ZoneInfo(tz) if tz else UTC)
    return d.astimezone(UTC)


def iso_local(d, tz):
    """aware UTC datetime -> naive ISO string in wall-clock time of tz (UTC if None)."""
    loc = d.astimezone(ZoneInfo(tz)) if tz else d.astimezone(UTC)
    naive = loc.replace(tzinfo=None)
    if tz:
        # an ambiguous wall-clock time (autumn switch) cannot be given naively: keep the offset
        z = ZoneInfo(tz)
        a = naive.replace(tzinfo=z, fold=0).astimezone(UTC)
        b = naive.replace(tzinfo=z, fold=1).astimezone(UTC)
        if a != b or a != d:
            return loc.isoformat(timespec="minutes")
    return naive.isoformat(timespec="minutes")


def _wall(d, tz):
    return d.astimezone(ZoneInfo(tz)) if tz else d.astimezone(UTC)


def _points(start, end, freq, tz):
    """all points start + k*step <= end (aware UTC datetimes)."""
    n, unit = parse_freq(freq)
    pts = []
    if unit in ("min", "h", "s"):
        step = timedelta(seconds=n * UNIT_S[unit])
        t = start
        while t <= end:
            pts.append(t)
            t = t + step
    elif unit == "d":
        w0 = _wall(start, tz).replace(tzinfo=None)
        k = 0
        while True:
            w = w0 + timedelta(days=n * k)
            t = w.replace(tzinfo=ZoneInfo(tz) if tz else UTC).astimezone(UTC)
            if t > end:
                break
            pts.append(t)
            k += 1
    elif unit == "MS":
        w0 = _wall(start, tz).replace(tzinfo=None)
        y, mth = w0.year, w0.month
        first = datetime(y, mth, 1)
        if first < w0:
            mth += 1
            if mth == 13:
                y, mth = y + 1, 1
        while True:
            w = datetime(y, mth, 1)
            t = w.replace(tzinfo=ZoneInfo(tz) if tz else UTC).astimezone(UTC)
            if t > end:
                break
            pts.append(t)
            mth += n
            while mth > 12:
                y, mth = y + 1, mth - 12
    else:
        raise ValueError(freq)
    return pts


class Grid:
    def __init__(self, start, end, freq="h", mtu="h", tz=None):
        self.tz = tz
        self.freq = freq
        self.mtu = mtu
        self.start = parse_instant(start, tz)
        self.end = parse_instant(end, tz)
        pts = _points(self.start, self.end, freq, tz)
        self.all_points = pts
        self.points = pts[:-1]
        self.T = len(self.points)
        u = UNIT_S[mtu]
        self.dt = [(pts[i + 1] - pts[i]).total_seconds() / u for i in range(self.T)]
        self.Dt = []
        acc = 0.0
        for x in self.dt:
            acc += x
            self.Dt.append(acc)
        self.horizon_end = pts[-1] if pts else self.start  # end of the last full step

    @classmethod
    def from_json(cls, g):
        return cls(g["start"], g["end"], g.get("freq", "h"), g.get("mtu", "h"), g.get("tz"))

    def discount(self, wacc):
        u = UNIT_S[self.mtu]
        return [(1.0 + wacc) ** (-(D * u / 86400.0) / 365.0) for D in self.Dt]

    def window(self, start=None, end=None, date_tz=None):
        """indices of grid points in [start, end); None -> grid start / grid end.
        Naive window dates are read in the grid's zone."""
        tz = date_tz or self.tz
        s = parse_instant(start, tz) if isinstance(start, str) else start
        e = parse_instant(end, tz) if isinstance(end, str) else end
        if s is None:
            s = self.start
        if e is None:
            e = self.end
        return [i for i, t in enumerate(self.points) if s <= t < e]

    def coarse(self, start, end, freq, date_tz=None):
        """coarse partition of a window: list of lists of fine indices, one per complete
        coarse interval [a, b) with a = wstart + k*coarse step, b <= wend."""
        tz = date_tz or self.tz
        s = parse_instant(start, tz) if isinstance(start, str) else (start or self.start)
        e = parse_instant(end, tz) if isinstance(end, str) else (end or self.end)
        pts = _points(s, e, freq, self.tz)
        groups = []
        for a, b in zip(pts[:-1], pts[1:]):
            groups.append([i for i, t in enumerate(self.points) if a <= t < b])
        return groups

    def iso(self, d):
        return iso_local(d, self.tz)

    # instants used by scenario generators -----------------------------------------
    def instant(self, spec):
        """('gp', i) grid point i (i == T -> end of last step); ('mid', i) middle of step i;
        ('before', k) k mean steps before start; ('after', k) k mean steps after the end."""
        kind, k = spec
        mean = (self.horizon_end - self.start) / max(1, self.T)
        if kind == "gp":
            return self.all_points[k]
        if kind == "mid":
            return self.all_points[k] + (self.all_points[k + 1] - self.all_points[k]) / 2
        if kind == "before":
            return self.start - k * mean
        if kind == "after":
            return self.horizon_end + k * mean
        raise ValueError(spec)

    def instant_iso(self, spec):
        return None if spec is None else self.iso(self.instant(spec))
