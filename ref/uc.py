"""R4 - unit-commitment reference: on/off automaton and pattern LP pieces.

Automaton state = (on?, age in steps). A unit that has been on for `age` steps may switch
off only if age >= R (minimum runtime), a unit that has been off for `age` steps may switch
on only if age >= D (minimum downtime). R, D <= 1 impose nothing. The declared initial
state gives the first state: ('on', k) for time_already_running = k > 0 steps,
('off', m) for time_already_off = m > 0 steps, and ('off', infinity) when neither is given.
"""
import itertools
import math

BIG = 10 ** 6


def steps(value, step_len):
    """duration in main time units -> whole steps (rounded up, as documented)"""
    x = value / step_len
    return int(math.ceil(x - 1e-12))


def initial_state(running_steps, off_steps):
    if running_steps > 0:
        return ("on", running_steps)
    if off_steps > 0:
        return ("off", off_steps)
    return ("off", BIG)


def accepts(word, R, D, init):
    """does the automaton accept the on/off word (sequence of 0/1)?"""
    on, age = init
    for w in word:
        if on == "on":
            if w:
                age = min(BIG, age + 1)
            else:
                if R > 1 and age < R:
                    return False
                on, age = "off", 1
        else:
            if not w:
                age = min(BIG, age + 1)
            else:
                if D > 1 and age < D:
                    return False
                on, age = "on", 1
    return True


def language(T, R, D, init):
    return [w for w in itertools.product((0, 1), repeat=T) if accepts(w, R, D, init)]


def starts(word, init):
    """steps at which an off->on transition happens (step 0: relative to the initial state)"""
    prev = 1 if init[0] == "on" else 0
    out = []
    for t, w in enumerate(word):
        if w and not prev:
            out.append(t)
        prev = w
    return out
