"""R2 - textbook portfolio LP/MILP written straight from the asset docstrings.

Independent of eaopack: consumes the scenario JSON, uses R1 (ref.grid) for all time
bookkeeping and scipy/HiGHS for solving. Formulation, per asset and step t of its window:

 contract   flow f_t in [min_cap_t, max_cap_t]*dt_t into its node; cost disc_t*(price_t*f_t + extra_t*|f_t|)
 transport  f_t in [min,max]*dt_t; node1 gets -f_t, node2 gets +eff*f_t; cost disc_t*(series_t+const)*|f_t|
 storage    charge c_t in [0,cap_in*dt_t], discharge d_t in [0,cap_out*dt_t]; level recursion
            L_t = L_{t-1} + eff*c_t - d_t + inflow*dt_t, L_{-1} = start, 0 <= L_t <= size, L_last = end;
            node gets d_t - c_t (two nodes: -c_t at the first, +d_t at the second);
            cost disc_t*(cost_in*c_t + cost_out*d_t - price_t*(d_t-c_t)) + cost_store*dt_t*disc_t*(L_t - start - cum.inflow_t)
            (the subtraction of start level and inflow is the documented "constant contribution not part of output NPV");
            blocks: the recursion restarts at start level in every block and every block ends at the end level
 multi-commodity   f_t as contract; node_i gets factor_i*f_t
 order book x_o in [0,1]; node gets sum_o x_o*capa_o*dt_t over covering orders; cost x_o*capa_o*price_o*sum(dt_t*disc_t)
 takes      sum of f_t over the period's steps >=/<= volume * covered duration / period length
 balance    at every node and step the flows of all assets sum to zero
 discount   disc_t = (1+wacc)^(-elapsed days to the END of step t / 365)   (per asset wacc)
"""
import math
import numpy as np
from scipy.optimize import linprog, milp, LinearConstraint, Bounds
from scipy import sparse as sp

from .grid import Grid, parse_instant, UNIT_S, freq_seconds, _points

INF = float("inf")


class Unsupported(Exception):
    """the scenario is outside the documented domain (both sides are expected to reject it)"""


class LP:
    def __init__(self):
        self.lb, self.ub, self.cost, self.integ = [], [], [], []
        self.rows = []  # (coefs dict, lo, hi)
        self.const = 0.0

    def var(self, lb, ub, cost=0.0, integer=False):
        self.lb.append(lb)
        self.ub.append(ub)
        self.cost.append(cost)
        self.integ.append(1 if integer else 0)
        return len(self.lb) - 1

    def row(self, coefs, lo, hi):
        self.rows.append((dict(coefs), lo, hi))

    def solve(self, extra_rows=(), maximize_expr=None):
        """minimise cost (or maximise the given expression). returns (status, x, objective)"""
        n = len(self.lb)
        rows = list(self.rows) + list(extra_rows)
        c = np.array(self.cost, float)
        if maximize_expr is not None:
            c = np.zeros(n)
            for j, v in maximize_expr.items():
                c[j] = -v
        if n == 0:
            ok = all(lo - 1e-9 <= 0 <= hi + 1e-9 for _, lo, hi in rows)
            return ("optimal" if ok else "infeasible"), np.zeros(0), 0.0
        if rows:
            data, ri, ci = [], [], []
            lo = np.empty(len(rows))
            hi = np.empty(len(rows))
            for r, (co, l, h) in enumerate(rows):
                for j, v in co.items():
                    if v != 0.0:
                        ri.append(r)
                        ci.append(j)
                        data.append(v)
                lo[r], hi[r] = l, h
            A = sp.csr_matrix((data, (ri, ci)), shape=(len(rows), n))
            cons = [LinearConstraint(A, lo, hi)]
        else:
            cons = []
        res = milp(c, constraints=cons, integrality=np.array(self.integ), bounds=Bounds(np.array(self.lb, float), np.array(self.ub, float)),
                   options=dict(presolve=True, mip_rel_gap=0.0))
        if res.status == 0:
            return "optimal", res.x, float(res.fun)
        if res.status == 2:
            return "infeasible", None, None
        if res.status == 3:
            return "unbounded", None, None
        return "other:%s" % res.status, None, None


def expr_add(a, b, f=1.0):
    for j, v in b.items():
        a[j] = a.get(j, 0.0) + f * v
    return a


class RefModel:
    """Textbook model of a scenario. steps: optional subset of grid indices (for split intervals)."""

    def __init__(self, scn, steps=None, options=None):
        self.scn = scn
        self.opt = dict(options or {})
        self.g = Grid.from_json(scn["grid"])
        self.T = self.g.T
        self.steps = list(range(self.T)) if steps is None else list(steps)
        self.stepset = set(self.steps)
        self.date_tz = scn.get("date_tz")
        self.prices = scn.get("prices", {})
        self.lp = LP()
        self.flows = {}      # (asset, node) -> {t: expr}
        self.costs = {}      # asset -> {t: (expr, const)}   undiscounted? no: discounted cost per step
        self.levels = {}     # storage -> {t: expr incl. '_const'}
        self.orders = {}     # order book -> [var per order]
        self.aux = {}        # asset -> misc
        self.nodes = []
        for a in scn["assets"]:
            self._asset(a)
        self._balance()

    # ------------------------------------------------------------------ helpers
    def _addflow(self, asset, node, t, expr):
        d = self.flows.setdefault((asset, node), {})
        d[t] = expr_add(d.get(t, {}), expr)
        if node not in self.nodes:
            self.nodes.append(node)

    def _addcost(self, asset, t, expr, const=0.0):
        d = self.costs.setdefault(asset, {})
        e, c0 = d.get(t, ({}, 0.0))
        d[t] = (expr_add(e, expr), c0 + const)
        for j, v in expr.items():
            self.lp.cost[j] += v
        self.lp.const += const

    def _window(self, a):
        W = self.g.window(a.get("start"), a.get("end"), self.date_tz)
        return [t for t in W if t in self.stepset]

    def _vec(self, value, W, default=None, what=""):
        """parameter -> {t: value} on window W"""
        if value is None:
            return None
        if isinstance(value, (int, float)):
            return {t: float(value) for t in W}
        if isinstance(value, str):
            if value not in self.prices:
                raise Unsupported("series %s missing" % value)
            return {t: float(self.prices[value][t]) for t in W}
        if isinstance(value, dict):
            out = interval_values(self.g, value, W, self.date_tz)
            for t in W:
                if out[t] is None:
                    if default is None:
                        raise Unsupported("no value for %s at step %d" % (what, t))
                    out[t] = default
            return out
        raise Unsupported("parameter form %r" % (value,))

    def _disc(self, a):
        return self.g.discount(a.get("wacc", 0.0) or 0.0)

    # ------------------------------------------------------------------ assets
    def _asset(self, a):
        typ = a["type"]
        if typ in ("SimpleContract", "Contract"):
            self._contract(a)
        elif typ == "MultiCommodityContract":
            self._contract(a, factors=a.get("factors_commodities", [1, 1]))
        elif typ in ("Transport", "ExtendedTransport"):
            self._transport(a)
        elif typ == "Storage":
            self._storage(a)
        elif typ == "OrderBook":
            self._orderbook(a)
        elif typ in ("Plant", "CHPAsset"):
            self._plant(a)
        else:
            raise Unsupported("asset type %s not modelled by R2" % typ)

    def _groups(self, a, W):
        """coarse frequency: list of groups of fine steps sharing one rate (None if fine)"""
        f = a.get("freq")
        if not f or f == self.g.freq:
            return None
        groups = self.g.coarse(a.get("start"), a.get("end"), f, self.date_tz)
        groups = [[t for t in G if t in self.stepset] for G in groups]
        return [G for G in groups if G]

    def _periodic_classes(self, a, W):
        """periodicity: classes of steps forced to the same dispatch (None if not periodic)"""
        p = a.get("periodicity")
        if not p:
            return None
        g = self.g
        dur = a.get("periodicity_duration")
        pts = g.points
        if not W:
            return None
        # periods / durations are anchored like pandas.date_range(tp[0]-1 period, ..., freq)
        # i.e. at the first grid point of the whole grid (fixed frequencies only)
        P = freq_seconds(p)
        t0 = pts[0]
        classes = {}
        for t in W:
            el = (pts[t] - t0).total_seconds()
            per = int(el // P)
            if dur:
                D = freq_seconds(dur)
                k = int(el // D)
            else:
                k = 0
            # position inside the period = index among grid steps of that period
            first_of_period = min(tt for tt in range(self.T) if int(((pts[tt] - t0).total_seconds()) // P) == per)
            sub = t - first_of_period
            classes.setdefault((k, sub), []).append(t)
        return [c for c in classes.values() if len(c) > 1]

    def _contract(self, a, factors=None):
        lp, g = self.lp, self.g
        name = a["name"]
        W = self._window(a)
        disc = self._disc(a)
        groups = self._groups(a, W)
        if groups is not None:
            W = [t for G in groups for t in G]
        price = self._vec(a.get("price"), W) if a.get("price") else {t: 0.0 for t in W}
        if groups is not None:  # documented: prices averaged over the merged steps
            for G in groups:
                m = sum(price[t] for t in G) / len(G)
                for t in G:
                    price[t] = m
        lo = self._vec(a.get("min_cap", 0.0), W, what="min_cap")
        hi = self._vec(a.get("max_cap", 0.0), W, what="max_cap")
        ec = self._vec(a.get("extra_costs", 0.0), W, default=0.0)
        fvars = {}
        self.aux[name] = dict(f={}, W=W)
        for t in W:
            l, h = lo[t] * g.dt[t], hi[t] * g.dt[t]
            if l > h + 1e-12:
                raise Unsupported("min_cap > max_cap")
            if ec[t] < 0:
                raise Unsupported("negative extra costs are not a textbook |f| cost")
            fp = lp.var(max(0.0, l), max(0.0, h))
            fn = lp.var(max(0.0, -h), max(0.0, -l))
            e = {fp: 1.0, fn: -1.0}
            fvars[t] = e
            self.aux[name]["f"][t] = e
            d = disc[t]
            if groups is not None:
                # coarse asset: cash flow is booked with the discount factor of the first fine step
                d = disc[[G for G in groups if t in G][0][0]] if self.opt.get("coarse_discount_first", True) else disc[t]
            self._addcost(name, t, {fp: d * (price[t] + ec[t]), fn: d * (-price[t] + ec[t])})
            if factors is None:
                self._addflow(name, a["nodes"][0], t, e)
            else:
                for nd, fac in zip(a["nodes"], factors):
                    self._addflow(name, nd, t, {fp: fac, fn: -fac})
        self._takes(a, W, fvars)
        self._equalities(a, W, groups, fvars)

    def _equalities(self, a, W, groups, fvars):
        """rate equalities for coarse frequency / periodicity"""
        g = self.g
        if groups is not None:
            for G in groups:
                for t in G[1:]:
                    co = {}
                    expr_add(co, fvars[G[0]], 1.0 / g.dt[G[0]])
                    expr_add(co, fvars[t], -1.0 / g.dt[t])
                    self.lp.row(co, 0.0, 0.0)
        cls = self._periodic_classes(a, W)
        if cls:
            for C in cls:
                # documented: limits of the merged steps are averaged
                for col in (0, 1):
                    js = [sorted(fvars[t])[col] for t in C]
                    lb = sum(self.lp.lb[j] for j in js) / len(js)
                    ub = sum(self.lp.ub[j] for j in js) / len(js)
                    for j in js:
                        self.lp.lb[j], self.lp.ub[j] = lb, ub
                for t in C[1:]:
                    co = {}
                    expr_add(co, fvars[C[0]], 1.0)
                    expr_add(co, fvars[t], -1.0)
                    self.lp.row(co, 0.0, 0.0)

    def _takes(self, a, W, fvars):
        g = self.g
        u = UNIT_S[g.mtu]
        for key, sense in (("max_take", "U"), ("min_take", "L")):
            tk = a.get(key)
            if not tk:
                continue
            starts, ends, vals = tk["start"], tk["end"], tk["values"]
            if not isinstance(starts, list):
                starts, ends, vals = [starts], [ends], [vals]
            for s, e, v in zip(starts, ends, vals):
                s_, e_ = parse_instant(s, self.date_tz or g.tz), parse_instant(e, self.date_tz or g.tz)
                S = [t for t in W if s_ <= g.points[t] < e_]
                if not S:
                    continue
                covered = sum(g.dt[t] for t in S)
                total = (e_ - s_).total_seconds() / u
                rhs = v * covered / total
                co = {}
                for t in S:
                    expr_add(co, fvars[t])
                if sense == "U":
                    self.lp.row(co, -INF, rhs)
                else:
                    self.lp.row(co, rhs, INF)

    def _transport(self, a):
        lp, g = self.lp, self.g
        name = a["name"]
        W = self._window(a)
        disc = self._disc(a)
        groups = self._groups(a, W)
        if groups is not None:
            W = [t for G in groups for t in G]
        lo, hi = float(a.get("min_cap", 0.0)), float(a.get("max_cap", 0.0))
        eff = float(a.get("efficiency", 1.0))
        cts = self._vec(a.get("costs_time_series"), W) if a.get("costs_time_series") else {t: 0.0 for t in W}
        if groups is not None:
            for G in groups:
                m = sum(cts[t] for t in G) / len(G)
                for t in G:
                    cts[t] = m
        cc = float(a.get("costs_const", 0.0))
        cost = {t: cts[t] + cc for t in W}
        anycost = any(abs(v) > 0 for v in cost.values())
        if anycost and not (hi <= 0 or lo >= 0):
            raise Unsupported("transport with costs must be one-directional")
        if any(v < 0 for v in cost.values()):
            raise Unsupported("negative transport costs")
        n1, n2 = a["nodes"][0], a["nodes"][1]
        fvars = {}
        self.aux[name] = dict(f={}, W=W)
        for t in W:
            l, h = lo * g.dt[t], hi * g.dt[t]
            fp = lp.var(max(0.0, l), max(0.0, h))
            fn = lp.var(max(0.0, -h), max(0.0, -l))
            e = {fp: 1.0, fn: -1.0}
            fvars[t] = e
            self.aux[name]["f"][t] = e
            d = disc[t]
            if groups is not None:
                d = disc[[G for G in groups if t in G][0][0]]
            self._addcost(name, t, {fp: d * cost[t], fn: d * cost[t]})
            self._addflow(name, n1, t, {fp: -1.0, fn: 1.0})
            self._addflow(name, n2, t, {fp: eff, fn: -eff})
        self._takes(a, W, fvars)
        self._equalities(a, W, groups, fvars)

    def _blocks(self, a, W):
        return storage_blocks(self.g, a, W, self.date_tz)

    def _storage(self, a):
        lp, g = self.lp, self.g
        name = a["name"]
        W = self._window(a)
        disc = self._disc(a)
        groups = self._groups(a, W)
        if groups is not None:
            W = [t for G in groups for t in G]
            if float(a.get("cost_store", 0.0)):
                raise Unsupported("holding costs of a coarse storage are booked on coarse steps (not a fine-grid quantity)")
        size = float(a["size"])
        cin, cout = float(a["cap_in"]), float(a["cap_out"])
        start, end = float(a.get("start_level", 0.0)), float(a.get("end_level", 0.0))
        eff = float(a.get("eff_in", 1.0))
        inflow = float(a.get("inflow", 0.0))
        c_in, c_out, c_store = float(a.get("cost_in", 0.0)), float(a.get("cost_out", 0.0)), float(a.get("cost_store", 0.0))
        price = self._vec(a.get("price"), W) if a.get("price") else {t: 0.0 for t in W}
        if groups is not None:
            for G in groups:
                mprice = sum(price[t] for t in G) / len(G)
                for t in G:
                    price[t] = mprice
        nodes = a["nodes"]
        self.aux[name] = dict(c={}, d={}, W=W, blocks=[])
        self.levels[name] = {}
        cvars, dvars = {}, {}
        for t in W:
            c = lp.var(0.0, cin * g.dt[t])
            d = lp.var(0.0, cout * g.dt[t])
            cvars[t], dvars[t] = c, d
            self.aux[name]["c"][t] = c
            self.aux[name]["d"][t] = d
            self._addcost(name, t, {c: disc[t] * (c_in + price[t]), d: disc[t] * (c_out - price[t])})
            if len(nodes) == 1:
                self._addflow(name, nodes[0], t, {d: 1.0, c: -1.0})
            else:
                self._addflow(name, nodes[0], t, {c: -1.0})
                self._addflow(name, nodes[1], t, {d: 1.0})
        blocks = self._blocks(a, W)
        self.aux[name]["blocks"] = blocks
        cuminf_all = 0.0
        for B in blocks:
            lev = {}
            cuminf = 0.0
            for k, t in enumerate(B):
                expr_add(lev, {cvars[t]: eff, dvars[t]: -1.0})
                cuminf += inflow * g.dt[t]
                const = start + cuminf
                self.levels[name][t] = (dict(lev), const)
                if k == len(B) - 1:
                    lp.row(lev, end - const, end - const)
                else:
                    lp.row(lev, 0.0 - const, size - const)
                if c_store:
                    # holding cost on the level at the end of the step, minus the documented constant part
                    w = c_store * g.dt[t] * disc[t]
                    self._addcost(name, t, {j: w * v for j, v in lev.items()})
        # coarse frequency: constant charge / discharge rates inside each coarse interval
        if groups is not None:
            for G in groups:
                for t in G[1:]:
                    for vv in (cvars, dvars):
                        lp.row({vv[G[0]]: 1.0 / g.dt[G[0]], vv[t]: -1.0 / g.dt[t]}, 0.0, 0.0)
        # periodicity: same charge and same discharge at equal positions of the periods (limits averaged)
        cls = self._periodic_classes(a, W)
        if cls:
            for C in cls:
                for vv in (cvars, dvars):
                    ub = sum(lp.ub[vv[t]] for t in C) / len(C)
                    for t in C:
                        lp.ub[vv[t]] = ub
                    for t in C[1:]:
                        lp.row({vv[C[0]]: 1.0, vv[t]: -1.0}, 0.0, 0.0)
        # MIP options
        if a.get("no_simult_in_out"):
            for t in W:
                z = lp.var(0.0, 1.0, integer=True)
                lp.row({cvars[t]: 1.0, z: cin * g.dt[t]}, -INF, cin * g.dt[t])   # c <= cap*(1-z)
                lp.row({dvars[t]: 1.0, z: -cout * g.dt[t]}, -INF, 0.0)            # d <= cap*z
        md = a.get("max_store_duration")
        if md is not None:
            ys = {}
            for t in W:
                y = lp.var(0.0, 1.0, integer=True)
                ys[t] = y
                lev, const = self.levels[name][t]
                co = dict(lev)
                co[y] = -size
                lp.row(co, -INF, -const)  # L_t <= size*y_t
            for i, t in enumerate(W):
                acc = 0.0
                run = []
                for tt in W[i:]:
                    acc += g.dt[tt]
                    run.append(tt)
                    if acc > md + 1e-9:
                        lp.row({ys[x]: 1.0 for x in run}, -INF, len(run) - 1)
                        break

    def _orderbook(self, a):
        lp, g = self.lp, self.g
        name = a["name"]
        disc = self._disc(a)
        o = a["orders"]
        tz = self.date_tz or g.tz
        xs = []
        self.aux[name] = dict(x=xs, cover=[])
        node = a["nodes"][0]
        for s, e, capa, pr in zip(o["start"], o["end"], o["capa"], o["price"]):
            s_, e_ = parse_instant(s, tz), parse_instant(e, tz)
            S = [t for t in self.steps if s_ <= g.points[t] < e_]
            x = lp.var(0.0, 1.0, integer=bool(a.get("full_exec")))
            xs.append(x)
            self.aux[name]["cover"].append(S)
            for t in S:
                self._addflow(name, node, t, {x: capa * g.dt[t]})
                self._addcost(name, t, {x: capa * pr * g.dt[t] * disc[t]})
        if node not in self.nodes:
            self.nodes.append(node)

    def _plant(self, a):
        """plant / CHP for a FIXED on/off word (options['words'][name], one entry per window step).
        power p_t, heat h_t >= 0; virtual output v = p + conv*h; off: v = 0; on: min*dt <= v <= max*dt;
        |v_t - v_(t-1)| <= ramp*dt incl. the first step vs. last_dispatch; h <= share*p;
        fuel node gets -(v/eff + consumption_if_on*dt*on + start_fuel*start); costs price*v (discounted),
        running_costs*dt per on step, start_costs per off->on transition."""
        from . import uc
        lp, g = self.lp, self.g
        name = a["name"]
        words = self.opt.get("words") or {}
        if name not in words:
            raise Unsupported("plant without a fixed on/off word")
        W = self._window(a)
        word = list(words[name])
        if len(word) != len(W):
            raise Unsupported("word length")
        disc = self._disc(a)
        price = self._vec(a.get("price"), W) if a.get("price") else {t: 0.0 for t in W}
        lo = self._vec(a.get("min_cap", 0.0), W)
        hi = self._vec(a.get("max_cap", 0.0), W)
        is_chp = a["type"] == "CHPAsset"
        nodes = a["nodes"]
        n_power = nodes[0]
        n_heat = nodes[1] if is_chp else None
        n_fuel = (nodes[2] if len(nodes) == 3 else None) if is_chp else (nodes[1] if len(nodes) == 2 else None)
        conv = self._vec(a.get("conversion_factor_power_heat", 1.0), W, default=1.0)
        share = self._vec(a.get("max_share_heat"), W, default=1.0) if a.get("max_share_heat") is not None else None
        step0 = g.dt[W[0]] if W else 1.0
        run_steps = uc.steps(a.get("time_already_running", 0) or 0, step0)
        off_steps = uc.steps(a.get("time_already_off", 0) or 0, step0)
        init = uc.initial_state(run_steps, off_steps)
        st = set(uc.starts(word, init))
        ramp = a.get("ramp")
        last = float(a.get("last_dispatch", 0.0) or 0.0)
        start_costs = self._vec(a.get("start_costs", 0.0), W, default=0.0)
        running = self._vec(a.get("running_costs", 0.0), W, default=0.0)
        if n_fuel is not None:
            eff = self._vec(a.get("fuel_efficiency", 1.0), W, default=1.0)
            cons = self._vec(a.get("consumption_if_on", 0.0), W, default=0.0)
            sfuel = self._vec(a.get("start_fuel", 0.0), W, default=0.0)
        prev = None
        self.aux[name] = dict(p={}, h={}, W=W, word=word, starts=sorted(st))
        # start / shutdown ramp profiles (per step; the caller uses grids where one step = one main time unit)
        SL, SU = a.get("start_ramp_lower_bounds"), a.get("start_ramp_upper_bounds")
        DL, DU = a.get("shutdown_ramp_lower_bounds"), a.get("shutdown_ramp_upper_bounds")
        SU = SU if SU is not None else SL
        DU = DU if DU is not None else DL
        nS = len(SL) if SL else 0
        nD = len(DL) if DL else 0
        lenient = self.opt.get("profile_reading") == "lenient"
        n = len(W)
        # run structure: for each on step its offset from the start of its run and the index of the shutdown ending the run
        run_start, run_end = [None] * n, [None] * n
        k = 0
        while k < n:
            if word[k]:
                s0 = k
                while k < n and word[k]:
                    k += 1
                e0 = k if k < n else None          # shutdown index inside the horizon (None: runs to the end)
                first = (s0 == 0 and init[0] == "on")
                for q in range(s0, (e0 if e0 is not None else n)):
                    run_start[q] = (-init[1] if first else s0)
                    run_end[q] = e0
            else:
                k += 1
        tau0 = 0 if (init[0] == "on" and n and not word[0]) else None   # shutdown right at step 0
        if init[0] == "on" and nS and init[1] < nS:
            for i in range(nS - init[1]):
                if i < n and not word[i]:
                    lp.row({}, 1.0, 1.0)  # the unit is still in its start ramp: it cannot be off here (infeasible pattern)
        for k, t in enumerate(W):
            on = word[k]
            lo_k, hi_k = lo[t] * g.dt[t], hi[t] * g.dt[t]
            in_start = in_shut = False
            if on and nS and (k - run_start[k]) < nS:
                j = k - run_start[k]
                lo_k, hi_k, in_start = SL[j] * g.dt[t], SU[j] * g.dt[t], True
            elif on and nD and run_end[k] is not None and (run_end[k] - k - 1) < nD:
                j = run_end[k] - k - 1
                lo_k, hi_k, in_shut = DL[j] * g.dt[t], DU[j] * g.dt[t], True
            if not (lenient and is_chp and (in_start or in_shut)):
                # a profile never lifts the output above the maximum capacity of the step - except, under the lenient reading
                # ("profiles take precedence"), the VIRTUAL output of a CHP, whose power and heat stay within their own bounds
                hi_k = min(hi_k, hi[t] * g.dt[t])
            p = lp.var(0.0, hi[t] * g.dt[t] if on else 0.0)
            v = {p: 1.0}
            self.aux[name]["p"][t] = p
            self._addflow(name, n_power, t, {p: 1.0})
            if is_chp:
                hmax = (share[t] * hi[t] * g.dt[t]) if share is not None else hi[t] * g.dt[t] / conv[t]
                h = lp.var(0.0, hmax if on else 0.0)
                v[h] = conv[t]
                self.aux[name]["h"][t] = h
                self._addflow(name, n_heat, t, {h: 1.0})
                if share is not None:
                    lp.row({h: 1.0, p: -share[t]}, -INF, 0.0)
            if on:
                if lo_k > hi_k + 1e-12:
                    lp.row({}, 1.0, 1.0)   # profile value above the maximum capacity: pattern infeasible
                else:
                    lp.row(v, lo_k, hi_k)
            self._addcost(name, t, {j_: disc[t] * price[t] * c_ for j_, c_ in v.items()},
                          const=(running[t] * g.dt[t] if on else 0.0) + (start_costs[t] if k in st else 0.0))
            if n_fuel is not None:
                fl = {j_: -c_ / eff[t] for j_, c_ in v.items()}
                constf = -(cons[t] * g.dt[t] if on else 0.0) - (sfuel[t] if k in st else 0.0)
                one = lp.var(1.0, 1.0)
                fl[one] = constf
                self._addflow(name, n_fuel, t, fl)
            if ramp is not None:
                rs = ramp * step0
                # which shutdown ends the run the PREVIOUS step belongs to (or happens right at this step)
                if k == 0:
                    tau = tau0 if tau0 is not None else (run_end[0] if (on and init[0] == "on") else None)
                    prev_on = init[0] == "on"
                else:
                    tau = run_end[k - 1] if word[k - 1] else None
                    prev_on = bool(word[k - 1])
                relax_up = in_start
                relax_down = bool(nD and prev_on and tau is not None and (tau - nD + (0 if lenient else 1)) <= k <= tau)
                if prev is None:
                    base_v = last * step0
                    lo_r = -INF if relax_down else base_v - rs
                    hi_r = INF if relax_up else base_v + rs
                    lp.row(v, lo_r, hi_r)
                else:
                    co = dict(v)
                    expr_add(co, prev, -1.0)
                    lp.row(co, -INF if relax_down else -rs, INF if relax_up else rs)
            prev = v

    # ------------------------------------------------------------------ balance / solve
    def _balance(self):
        per = {}
        for (asset, node), d in self.flows.items():
            for t, e in d.items():
                expr_add(per.setdefault((node, t), {}), e)
        self.balance_keys = sorted(per)
        for k in self.balance_keys:
            self.lp.row(per[k], 0.0, 0.0)

    def optimum(self):
        """-> (status, value)  value = maximal discounted cash flow (= -min cost)"""
        st, x, obj = self.lp.solve()
        self.x = x
        if st != "optimal":
            return st, None
        return st, -(obj + self.lp.const)

    def evaluate(self, expr, const=0.0):
        return const + sum(self.x[j] * v for j, v in expr.items())

    def pin_rows(self, table, tol=1e-6):
        """equality rows fixing every (asset, node, step) flow to the given table
        table: {(asset, node): array over the full grid}; missing entries are pinned to 0"""
        rows = []
        self.pin_slack = 0.0
        cmax = max([abs(c) for c in self.lp.cost] + [1.0])
        for (asset, node), d in self.flows.items():
            arr = table.get((asset, node))
            for t, e in d.items():
                v = 0.0 if arr is None else float(arr[t])
                eps = tol * (1.0 + abs(v))
                rows.append((e, v - eps, v + eps))
                self.pin_slack += 4 * eps * cmax
        return rows

    def plug_in(self, table, tol=1e-6):
        """pin all flows to the table and re-solve: -> (status, value). Also reports flows
        the table has outside the model's support."""
        stray = []
        for (asset, node), arr in table.items():
            d = self.flows.get((asset, node), {})
            for t in range(len(arr)):
                if t not in d and abs(arr[t]) > 1e-6:
                    stray.append((asset, node, t, float(arr[t])))
        if stray:
            return "stray_flow:%s" % (stray[:3],), None
        st, x, obj = self.elastic_solve(table, tol)
        if st != "optimal":
            return st, None
        self.x_plug = x
        return st, -(obj + self.lp.const)

    def elastic_solve(self, table, tol=1e-6):
        """plug-in with a deviation budget: every pinned flow may deviate from the table, the SUM of absolute deviations is
        bounded by tol*(1 + sum |table|). (Bands around single rows turned out to be fragile: HiGHS presolve can declare a
        band of width 1e-6 on a row of integer columns infeasible.) The value is maximised under that budget."""
        lp = self.lp
        n0 = len(lp.lb)
        rows, slack = [], []
        total = 0.0
        for (asset, node), d in self.flows.items():
            arr = table.get((asset, node))
            for t, e in d.items():
                v = 0.0 if arr is None else float(arr[t])
                total += abs(v)
                sp_, sm_ = lp.var(0.0, INF), lp.var(0.0, INF)
                slack += [sp_, sm_]
                co = dict(e)
                co[sp_] = 1.0
                co[sm_] = -1.0
                rows.append((co, v, v))
        budget = tol * (1.0 + total)
        rows.append(({j: 1.0 for j in slack}, -INF, budget))
        cmax = max([abs(c) for c in lp.cost] + [1.0])
        self.pin_slack = 4 * budget * cmax
        try:
            st, x, obj = lp.solve(extra_rows=rows)
            return st, (None if x is None else x[:n0]), obj
        finally:
            del lp.lb[n0:], lp.ub[n0:], lp.cost[n0:], lp.integ[n0:]

    def _table_scale(self, table):
        return max([float(np.abs(v).max(initial=0.0)) for v in table.values()] + [0.0])

    def min_deviation(self, table):
        """elastic plug-in: minimal sum of |model flow - table flow| over all pinned flows (None if the model itself is infeasible)"""
        lp = self.lp
        n0 = len(lp.lb)
        rows, slack = [], []
        for (asset, node), d in self.flows.items():
            arr = table.get((asset, node))
            for t, e in d.items():
                v = 0.0 if arr is None else float(arr[t])
                sp_, sm_ = lp.var(0.0, INF), lp.var(0.0, INF)
                slack += [sp_, sm_]
                co = dict(e)
                co[sp_] = 1.0
                co[sm_] = -1.0
                rows.append((co, v, v))
        try:
            st, x, obj = lp.solve(extra_rows=rows, maximize_expr={j: -1.0 for j in slack})
            return None if st != "optimal" else float(sum(x[j] for j in slack))
        finally:
            del lp.lb[n0:], lp.ub[n0:], lp.cost[n0:], lp.integ[n0:]

    def asset_cost_by_step(self, x=None):
        """discounted cost per asset and step for a solution vector"""
        x = self.x if x is None else x
        out = {}
        for asset, d in self.costs.items():
            arr = np.zeros(self.T)
            for t, (e, c0) in d.items():
                arr[t] += c0 + sum(x[j] * v for j, v in e.items())
            out[asset] = arr
        return out


def storage_blocks(g, a, W, date_tz=None):
    """storage time blocks: consecutive spans of block_size counted from the window start"""
    bs = a.get("block_size")
    if not bs or not W:
        return [list(W)]
    tz = date_tz or g.tz
    ws = parse_instant(a["start"], tz) if a.get("start") else g.start
    far = g.all_points[-1]
    bounds = _points(ws, far + (far - g.start), bs, g.tz)
    blocks = []
    for b0, b1 in zip(bounds[:-1], bounds[1:]):
        B = [t for t in W if b0 <= g.points[t] < b1]
        if B:
            blocks.append(B)
    covered = set(t for B in blocks for t in B)
    rest = [t for t in W if t not in covered]
    if rest:
        blocks.append(rest)
    return blocks


def interval_values(g, d, W, date_tz=None):
    """interval data -> {t: value or None} (unique containing interval [s,e); overlap -> Unsupported)"""
    tz = date_tz or g.tz
    starts = d["start"] if isinstance(d["start"], list) else [d["start"]]
    vals = d["values"] if isinstance(d["values"], list) else [d["values"]]
    if d.get("end") is not None:
        ends = d["end"] if isinstance(d["end"], list) else [d["end"]]
        E = [parse_instant(e, tz) for e in ends]
    else:
        E = None
    S = [parse_instant(s, tz) for s in starts]
    if E is None:
        if len(S) > 1:
            E = S[1:] + [S[-1] + 2 * (S[-1] - S[-2])]
        else:
            E = [None]
    out = {}
    for t in W:
        p = g.points[t]
        hits = [v for s, e, v in zip(S, E, vals) if s <= p and (e is None or p < e)]
        if len(hits) > 1:
            raise Unsupported("overlapping intervals")
        out[t] = float(hits[0]) if hits else None
    return out


def split_intervals(g, size):
    """R1: step index sets of the split intervals (boundaries start + k*size, plus start and end)"""
    pts = _points(g.start, g.end, size, g.tz)
    bounds = list(pts)
    if not bounds or bounds[0] != g.start:
        bounds.insert(0, g.start)
    bounds.append(g.end)
    out = []
    for a, b in zip(bounds[:-1], bounds[1:]):
        S = [t for t in range(g.T) if a <= g.points[t] < b]
        if S:
            out.append(S)
    return out
