"""Deterministic work distribution over worker processes.

Workers are forked once, silence EAO's print chatter, pin BLAS/solver threads to one and
never print: they return JSON-able result dicts to the parent.
"""
import os
import sys
import time
import multiprocessing as mp
import traceback
import warnings

N_WORKERS = int(os.environ.get("VERIF_WORKERS", "16"))

_FUNC = None
_COV = None   # line coverage of eaopack per worker (diagnostic only, EAO_COV=<data file prefix>)


def _init(func_module, func_name, repo):
    global _FUNC, _COV
    if os.environ.get("EAO_COV"):
        import coverage
        _COV = coverage.Coverage(data_file=os.environ["EAO_COV"], data_suffix=True, include=[os.path.join(repo, "eaopack", "*")])
        _COV.start()
    for v in ("OMP_NUM_THREADS", "OPENBLAS_NUM_THREADS", "MKL_NUM_THREADS"):
        os.environ[v] = "1"
    warnings.filterwarnings("ignore")
    if repo not in sys.path:
        sys.path.insert(0, repo)
    sys.stdout = open(os.devnull, "w")
    mod = __import__(func_module, fromlist=[func_name])
    _FUNC = getattr(mod, func_name)


def _run_chunk(chunk):
    out = []
    for idx, case in chunk:
        t0 = time.time()
        try:
            r = _FUNC(case)
        except Exception as e:  # framework error inside a worker: never a VIOLATION
            r = dict(status="framework_error", error=repr(e), tb=traceback.format_exc()[-2000:])
        r["_wall"] = time.time() - t0
        r["_pid"] = os.getpid()
        out.append((idx, r))
    if _COV is not None:
        _COV.save()
    return out


def run_cases(func_module, func_name, cases, repo, chunk=8, seed=0, deadline=None, progress=None, stop_if=None):
    """Run func on every case; returns list of results aligned with ``cases``.

    ``seed`` only rotates the order in which chunks are handed out. If ``deadline``
    (absolute time) passes, remaining chunks are dropped and their results are None.
    """
    n = len(cases)
    results = [None] * n
    chunks = [[(i, cases[i]) for i in range(s, min(n, s + chunk))] for s in range(0, n, chunk)]
    if chunks:
        r = seed % len(chunks)
        chunks = chunks[r:] + chunks[:r]
    ctx = mp.get_context("fork")
    nw = min(N_WORKERS, max(1, len(chunks)))
    done = 0
    with ctx.Pool(nw, initializer=_init, initargs=(func_module, func_name, repo),
                  maxtasksperchild=400) as pool:
        it = pool.imap_unordered(_run_chunk, chunks)
        while True:
            try:
                if deadline is not None:
                    left = deadline - time.time()
                    if left <= 0:
                        raise mp.TimeoutError()
                    out = it.next(timeout=left)
                else:
                    out = it.next()
            except StopIteration:
                break
            except mp.TimeoutError:
                pool.terminate()
                break
            stop = False
            for idx, r in out:
                results[idx] = r
                done += 1
                if stop_if is not None and stop_if(r):
                    stop = True
            if stop:   # (only used when validating seeded changes: the first unknown violation is enough)
                pool.terminate()
                break
            if progress and done % 2000 < chunk:
                progress(done, n)
    return results


def run_twice_separately(func_module, func_name, cases, repo):
    """Run the same cases in two fresh single-worker pools (two separate processes)."""
    ctx = mp.get_context("fork")
    outs = []
    for _ in range(2):
        with ctx.Pool(1, initializer=_init, initargs=(func_module, func_name, repo)) as pool:
            out = pool.apply(_run_chunk, ([(i, c) for i, c in enumerate(cases)],))
        outs.append([r for _, r in sorted(out, key=lambda t: t[0])])
    return outs
