"""Model-checking machinery for EAO (explorers, pool, runner, scenario language)."""
