"""setup / self test: imports, directories, reference calibration."""
import os, sys

def main():
    import numpy, scipy, pandas, cvxpy  # noqa
    import eaopack  # noqa  (from $EAO_REPO, default /repo)
    from ref import grid
    g = grid.Grid("2021-03-27T00:00", "2021-03-30T00:00", "d", "h", "CET")
    assert g.dt == [24.0, 23.0, 24.0], g.dt
    try:
        from ref import calib
        calib.main()
    except ImportError:
        pass
    print("selftest ok: eaopack from", os.path.dirname(eaopack.__file__))
    return 0
