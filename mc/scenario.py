"""Scenario language and alphabets (menus). Pure JSON building, no eaopack import.

A generator is a function gen(ch) that asks ch.pick(name, options[, cost]) at every
choice point (option 0 = default) and returns a scenario dict:

  {grid:{start,end,freq,mtu,tz}, prices:{name:[T floats]}, assets:[{type,name,nodes,...}],
   mode:'mono'|'split:<size>', date_tz: None|zone, meta:{...annotations for oracles...}}
"""
import copy
from ref.grid import Grid

# ----------------------------------------------------------------------------- grids
GRIDS = {
    "4x6h":  dict(start="2021-01-01T00:00", end="2021-01-02T00:00", freq="6h", mtu="h", tz=None),
    "5xh":   dict(start="2021-01-01T00:00", end="2021-01-01T05:00", freq="h", mtu="h", tz=None),
    "6x4h":  dict(start="2021-01-01T00:00", end="2021-01-02T00:00", freq="4h", mtu="h", tz=None),
    "8x3h":  dict(start="2021-01-01T00:00", end="2021-01-02T00:00", freq="3h", mtu="h", tz=None),
    "12x2h": dict(start="2021-01-01T00:00", end="2021-01-02T00:00", freq="2h", mtu="h", tz=None),
    "3xd_spring": dict(start="2021-03-27T00:00", end="2021-03-30T00:00", freq="d", mtu="h", tz="CET"),
    "3xd_autumn": dict(start="2021-10-30T00:00", end="2021-11-02T00:00", freq="d", mtu="h", tz="CET"),
    "7xh_autumn": dict(start="2021-10-31T00:00", end="2021-10-31T06:00", freq="h", mtu="h", tz="CET"),
    "12h_partial": dict(start="2021-01-01T00:00", end="2021-01-03T05:00", freq="12h", mtu="h", tz=None),
    "3xMS":  dict(start="2021-01-01T00:00", end="2021-04-01T00:00", freq="MS", mtu="d", tz=None),
    "4x6h_d": dict(start="2021-01-01T00:00", end="2021-01-02T00:00", freq="6h", mtu="d", tz=None),
    "4x6h_min": dict(start="2021-01-01T00:00", end="2021-01-02T00:00", freq="6h", mtu="min", tz=None),
    "4x6h_utc": dict(start="2021-01-01T00:00", end="2021-01-02T00:00", freq="6h", mtu="h", tz="UTC"),
    "4x6h_cet": dict(start="2021-01-01T00:00", end="2021-01-02T00:00", freq="6h", mtu="h", tz="CET"),
    "4x6h_off": dict(start="2021-01-01T06:00", end="2021-01-02T06:00", freq="6h", mtu="h", tz=None),
    "8x6h":  dict(start="2021-01-01T00:00", end="2021-01-03T00:00", freq="6h", mtu="h", tz=None),
    "12xh": dict(start="2021-01-01T00:00", end="2021-01-01T12:00", freq="h", mtu="h", tz=None),
    "12xh_d": dict(start="2021-01-01T00:00", end="2021-01-01T12:00", freq="h", mtu="d", tz=None),
    "12xh_min": dict(start="2021-01-01T00:00", end="2021-01-01T12:00", freq="h", mtu="min", tz=None),
    "4xd_autumn": dict(start="2021-10-29T00:00", end="2021-11-02T00:00", freq="d", mtu="h", tz="CET"),
    "8x6h_d": dict(start="2021-01-01T00:00", end="2021-01-03T00:00", freq="6h", mtu="d", tz=None),
    "6x30min": dict(start="2021-01-01T00:00", end="2021-01-01T03:00", freq="30min", mtu="h", tz=None),
}

# rates in the menus are per hour; a grid with another main unit needs them converted
MTU_H = {"h": 1.0, "d": 24.0, "min": 1.0 / 60.0}


def price_pattern(name, T):
    base = {
        "zig":  [1, 5, 2, 6, 1.5, 5.5, 2.5, 6.5, 1, 5, 2, 6],
        "rev":  [6, 2, 5, 1, 6.5, 2.5, 5.5, 1.5, 6, 2, 5, 1],
        "fall": [9, 8, 7, 6, 5, 4, 3, 2, 1, 0.5, 0.25, 0.1],
        "rise": [0.1, 0.25, 0.5, 1, 2, 3, 4, 5, 6, 7, 8, 9],
        "flat": [3] * 12,
        "peak": [1, 1, 8, 1, 1, 8, 1, 1, 8, 1, 1, 8],
        "neg":  [1, -2, 2, 6, 1, -2, 2, 6, 1, -2, 2, 6],
        "ec":   [0.5, 0, 1, 0.25, 0.5, 0, 1, 0.25, 0.5, 0, 1, 0.25],
    }[name]
    out = [float(base[i % len(base)]) for i in range(T)]
    return out


PRICE_PAIRS = [("zig", "rev"), ("fall", "zig"), ("peak", "flat"), ("neg", "rise")]


def make_prices(T, pair):
    return {"p": price_pattern(pair[0], T), "q": price_pattern(pair[1], T),
            "ec": price_pattern("ec", T)}


# ----------------------------------------------------------------------------- windows
# placements relative to the horizon (specs resolved through ref.grid.Grid.instant)
def window_menu(T):
    last = T
    return [
        None,
        (("gp", 1), None),              # late start
        (None, ("gp", last - 1)),       # early end
        (("gp", 1), ("gp", last - 1)),  # inside
        (("mid", 0), ("mid", last - 2)),  # between grid points
        (("before", 2), ("before", 1)),   # empty, before
        (("after", 1), ("after", 2)),     # empty, after
        (("before", 1), ("gp", 2)),       # straddling the start
        (("gp", last - 2), ("after", 1)),  # straddling the end
        (("gp", 1), ("gp", 2)),           # a single step
    ]


def resolve_window(g, w):
    if w is None:
        return None, None
    s, e = w
    return g.instant_iso(s), g.instant_iso(e)


def interval_dict(g, pieces, form="list"):
    """pieces: list of ((spec_s, spec_e), value)"""
    st = [g.instant_iso(s) for (s, e), v in pieces]
    en = [g.instant_iso(e) for (s, e), v in pieces]
    if any(len(x) > 16 for x in st + en):  # one instant needs an explicit offset -> all get one
        st = [g.instant(s).astimezone(__import__("zoneinfo").ZoneInfo(g.tz)).isoformat(timespec="minutes") for (s, e), v in pieces]
        en = [g.instant(e).astimezone(__import__("zoneinfo").ZoneInfo(g.tz)).isoformat(timespec="minutes") for (s, e), v in pieces]
    return dict(start=st, end=en, values=[v for _, v in pieces], form=form)


# ----------------------------------------------------------------------------- assets
def r(x, g):
    """convert an hourly rate to the grid's main time unit"""
    return x * MTU_H[g.mtu]


def d_(x, g):
    """convert a duration in hours to the grid's main time unit"""
    return x / MTU_H[g.mtu]


def gen_contract(ch, g, name, node, price, caps, feats, allow_free_price=False):
    """SimpleContract / Contract with the contract menu."""
    T = g.T
    a = dict(type="SimpleContract", name=name, nodes=[node], price=price)
    lo, hi = caps
    capsel = ch.pick(name + ".caps", ["base", "buy_only", "sell_only", "dict", "series", "zero_steps", "fixed"] if "caps" in feats else ["base"])
    if capsel == "base":
        a["min_cap"], a["max_cap"] = r(lo, g), r(hi, g)
    elif capsel == "buy_only":
        a["min_cap"], a["max_cap"] = r(0.0, g), r(max(hi, 1.0), g)
    elif capsel == "sell_only":
        a["min_cap"], a["max_cap"] = r(min(lo, -1.0), g), r(0.0, g)
    elif capsel == "dict":
        h = max(1, T // 2)
        a["min_cap"] = interval_dict(g, [((("gp", 0), ("gp", h)), r(lo, g)), ((("gp", h), ("gp", T)), r(lo / 2.0, g))])
        a["max_cap"] = interval_dict(g, [((("gp", 0), ("gp", h)), r(hi, g)), ((("gp", h), ("gp", T)), r(hi / 2.0 + 1.0, g))])
    elif capsel == "zero_steps":   # capacity exactly zero in the second half of the horizon
        h = max(1, T // 2)
        a["min_cap"] = interval_dict(g, [((("gp", 0), ("gp", h)), r(lo, g)), ((("gp", h), ("gp", T)), 0.0)])
        a["max_cap"] = interval_dict(g, [((("gp", 0), ("gp", h)), r(hi, g)), ((("gp", h), ("gp", T)), 0.0)])
    elif capsel == "fixed":        # min_cap = max_cap (a fixed profile)
        v = hi if hi > 0 else lo
        a["min_cap"], a["max_cap"] = r(v * 0.4, g), r(v * 0.4, g)
    elif capsel == "series":
        a["min_cap"], a["max_cap"] = "cap_lo_" + name, "cap_hi_" + name
        a["_series"] = {"cap_lo_" + name: [r(lo, g) * (1 if i % 2 == 0 else 0.5) for i in range(T)],
                        "cap_hi_" + name: [r(hi, g) * (1 if i % 2 == 0 else 0.5) + r(0.5, g) for i in range(T)]}
    if "extra_costs" in feats:
        ec = ch.pick(name + ".extra_costs", [0.0, 0.5, "dict", "series"])
        if ec == "dict":
            a["extra_costs"] = interval_dict(g, [((("gp", 0), ("gp", max(1, T // 2))), 0.5)])
        elif ec == "series":
            a["extra_costs"] = "ec"
        elif ec:
            a["extra_costs"] = ec
    if "wacc" in feats:
        w = ch.pick(name + ".wacc", [0.0, 0.3])
        if w:
            a["wacc"] = w
    if "window" in feats:
        w = ch.pick(name + ".window", window_menu(T))
        s, e = resolve_window(g, w)
        if s:
            a["start"] = s
        if e:
            a["end"] = e
    if "takes" in feats:
        tk = ch.pick(name + ".takes", ["none", "min_inside", "max_inside", "min_strad_start",
                                       "max_strad_end", "two", "outside"])
        step_cap = max(abs(lo), abs(hi)) * (sum(g.dt) / T) * MTU_H[g.mtu]  # volume per mean step
        if tk != "none":
            a["type"] = "Contract"
            vol = round(0.6 * step_cap, 6)
            if tk == "min_inside":
                a["min_take"] = interval_dict(g, [((("gp", 1), ("gp", T - 1)), vol if hi > 0 else -3 * vol)])
            elif tk == "max_inside":
                a["max_take"] = interval_dict(g, [((("gp", 1), ("gp", T - 1)), vol if lo >= 0 else -vol)])
            elif tk == "min_strad_start":
                a["min_take"] = interval_dict(g, [((("before", 2), ("gp", 2)), 2 * vol if hi > 0 else -6 * vol)])
            elif tk == "max_strad_end":
                a["max_take"] = interval_dict(g, [((("gp", T - 2), ("after", 2)), 2 * vol if lo >= 0 else -vol)])
            elif tk == "two":
                a["min_take"] = interval_dict(g, [((("gp", 0), ("gp", 2)), vol if hi > 0 else -3 * vol),
                                                  ((("gp", 2), ("gp", T)), 0.5 * vol if hi > 0 else -3 * vol)])
            elif tk == "outside":
                a["min_take"] = interval_dict(g, [((("after", 1), ("after", 3)), vol if hi > 0 else -vol)])
    if "freq" in feats:
        f = ch.pick(name + ".freq", [None] + feats["freq"])
        if f:
            a["freq"] = f
    if "periodicity" in feats:
        p = ch.pick(name + ".periodicity", [None] + feats["periodicity"])
        if p:
            a["periodicity"] = p[0]
            if p[1]:
                a["periodicity_duration"] = p[1]
    return a


def gen_storage(ch, g, name, nodes, feats, base=None):
    T = g.T
    b = dict(size=8.0, cap_in=1.0, cap_out=2.0, start_level=0.0, end_level=0.0)
    if base:
        b.update(base)
    a = dict(type="Storage", name=name, nodes=list(nodes[:1]), size=b["size"], cap_in=r(b["cap_in"], g),
             cap_out=r(b["cap_out"], g), start_level=b["start_level"], end_level=b["end_level"])
    if "sto_caps" in feats:   # one of the two rates exactly zero; discharge slower than charge
        cs = ch.pick(name + ".caps", ["base", "no_charge", "no_discharge", "swapped"])
        if cs == "no_charge":
            a["cap_in"] = 0.0
        elif cs == "no_discharge":
            a["cap_out"] = 0.0
        elif cs == "swapped":
            a["cap_in"], a["cap_out"] = a["cap_out"], a["cap_in"]
    if "sto_eff" in feats:
        e = ch.pick(name + ".eff_in", feats["sto_eff"] if isinstance(feats["sto_eff"], list) else [1.0, 0.9])
        if e != 1.0:
            a["eff_in"] = e
    if "sto_costs" in feats:
        v = ch.pick(name + ".cost_in", [0.0, 0.2])
        if v:
            a["cost_in"] = v
        v = ch.pick(name + ".cost_out", [0.0, 0.3])
        if v:
            a["cost_out"] = v
        v = ch.pick(name + ".cost_store", [0.0, 0.05])
        if v:
            a["cost_store"] = r(v, g)
    if "sto_inflow" in feats:
        v = ch.pick(name + ".inflow", [0.0, 0.1])
        if v:
            a["inflow"] = r(v, g)
    if "sto_levels" in feats:
        lv = ch.pick(name + ".levels", [(b["start_level"], b["end_level"]), (3.0, 2.0), (2.0, 2.0), (0.0, 4.0), (b["size"], b["size"]), (b["size"], 0.0)])
        a["start_level"], a["end_level"] = lv
    if "sto_size0" in feats:
        if ch.pick(name + ".size0", [False, True]):
            a["size"] = 0.0
            a["start_level"] = a["end_level"] = 0.0
    if "sto_two_nodes" in feats and len(nodes) >= 2:
        if ch.pick(name + ".two_nodes", [False, True]):
            a["nodes"] = [nodes[0], nodes[1]]
    if "sto_blocks" in feats:
        bs = ch.pick(name + ".block_size", [None] + feats["sto_blocks"])
        if bs:
            a["block_size"] = bs
    if "sto_mip" in feats:
        if ch.pick(name + ".no_simult", [False, True]):
            a["no_simult_in_out"] = True
        md = ch.pick(name + ".max_store_duration", [None] + feats["sto_mip"])
        if md is not None:
            a["max_store_duration"] = d_(md, g)
    if "sto_price" in feats:
        pr = ch.pick(name + ".price", [None, "q"])
        if pr:
            a["price"] = pr
    if "wacc" in feats:
        w = ch.pick(name + ".wacc", [0.0, 0.3])
        if w:
            a["wacc"] = w
    if "window" in feats:
        w = ch.pick(name + ".window", window_menu(T))
        s, e = resolve_window(g, w)
        if s:
            a["start"] = s
        if e:
            a["end"] = e
    if "freq" in feats:
        f = ch.pick(name + ".freq", [None] + feats["freq"])
        if f:
            a["freq"] = f
    if "periodicity" in feats:
        p = ch.pick(name + ".periodicity", [None] + feats["periodicity"])
        if p:
            a["periodicity"] = p[0]
            if p[1]:
                a["periodicity_duration"] = p[1]
    return a


def gen_transport(ch, g, name, nodes, feats):
    T = g.T
    a = dict(type="Transport", name=name, nodes=list(nodes[:2]), min_cap=r(0.0, g), max_cap=r(3.0, g))
    if "tr_dir" in feats:
        if ch.pick(name + ".dir", ["pos", "neg"]) == "neg":
            a["min_cap"], a["max_cap"] = r(-3.0, g), r(0.0, g)
    if "tr_eff" in feats:
        e = ch.pick(name + ".efficiency", [1.0, 0.8, 1.1])
        if e != 1.0:
            a["efficiency"] = e
    if "tr_costs" in feats:
        c = ch.pick(name + ".costs", [0.0, 0.1, "series"])
        if c == "series":
            a["costs_time_series"] = "ec"
        elif c:
            a["costs_const"] = c
    if "tr_takes" in feats:
        tk = ch.pick(name + ".takes", ["none", "min", "max", "max_strad"])
        vol = round(1.5 * (sum(g.dt) / T) * MTU_H[g.mtu], 6)
        sign = 1.0 if a["max_cap"] > 0 else -1.0
        if tk != "none":
            a["type"] = "ExtendedTransport"
            if tk == "min":
                a["min_take"] = interval_dict(g, [((("gp", 0), ("gp", T - 1)), vol if sign > 0 else -2 * vol * 3)])
            elif tk == "max":
                a["max_take"] = interval_dict(g, [((("gp", 1), ("gp", T)), vol if sign > 0 else -vol)])
            elif tk == "max_strad":
                a["max_take"] = interval_dict(g, [((("gp", T - 2), ("after", 2)), 2 * vol if sign > 0 else -vol)])
    if "wacc" in feats:
        w = ch.pick(name + ".wacc", [0.0, 0.3])
        if w:
            a["wacc"] = w
    if "window" in feats:
        w = ch.pick(name + ".window", window_menu(T))
        s, e = resolve_window(g, w)
        if s:
            a["start"] = s
        if e:
            a["end"] = e
    if "freq" in feats:
        f = ch.pick(name + ".freq", [None] + feats["freq"])
        if f:
            a["freq"] = f
    if "periodicity" in feats:
        p = ch.pick(name + ".periodicity", [None] + feats["periodicity"])
        if p:
            a["periodicity"] = p[0]
            if p[1]:
                a["periodicity_duration"] = p[1]
    return a


def gen_multicommodity(ch, g, name, nodes, feats):
    T = g.T
    a = dict(type="MultiCommodityContract", name=name, nodes=list(nodes), price="q",
             min_cap=r(0.0, g), max_cap=r(4.0, g), factors_commodities=[1.0, 0.5][:len(nodes)] + [0.25] * max(0, len(nodes) - 2))
    if "mc_factors" in feats:
        f = ch.pick(name + ".factors", ["base", "neg"])
        if f == "neg":
            a["factors_commodities"] = ([1.0, -2.0] + [0.5] * 5)[:len(nodes)]
    if "extra_costs" in feats:
        ec = ch.pick(name + ".extra_costs", [0.0, 0.5])
        if ec:
            a["extra_costs"] = ec
    if "takes" in feats:
        tk = ch.pick(name + ".takes", ["none", "max_inside", "min_strad_start"])
        vol = round(0.6 * 4.0 * (sum(g.dt) / T) * MTU_H[g.mtu], 6)
        if tk == "max_inside":
            a["max_take"] = interval_dict(g, [((("gp", 1), ("gp", T - 1)), vol)])
        elif tk == "min_strad_start":
            a["min_take"] = interval_dict(g, [((("before", 2), ("gp", 2)), 2 * vol)])
    if "window" in feats:
        w = ch.pick(name + ".window", window_menu(T))
        s, e = resolve_window(g, w)
        if s:
            a["start"] = s
        if e:
            a["end"] = e
    if "freq" in feats:
        f = ch.pick(name + ".freq", [None] + feats["freq"])
        if f:
            a["freq"] = f
    if "periodicity" in feats:
        p = ch.pick(name + ".periodicity", [None] + feats["periodicity"])
        if p:
            a["periodicity"] = p[0]
            if p[1]:
                a["periodicity_duration"] = p[1]
    return a


def gen_orderbook(ch, g, name, node, feats):
    """orders: capa in volume per main time unit (positive = delivered into the node)"""
    T = g.T
    sel = ch.pick(name + ".orders", ["buy_inside", "sell_inside", "overlap", "strad_start", "strad_end",
                                     "outside_before", "outside_after", "mixed_outside", "between"])
    O = []  # (s, e, capa, price)
    if sel == "buy_inside":
        O = [((("gp", 1), ("gp", T - 1)), 2.0, 2.5)]
    elif sel == "sell_inside":
        O = [((("gp", 1), ("gp", T - 1)), -2.0, 4.5)]
    elif sel == "overlap":
        O = [((("gp", 0), ("gp", 2)), 2.0, 2.5), ((("gp", 1), ("gp", T)), -1.5, 4.0), ((("gp", 1), ("gp", 2)), 1.0, 1.5)]
    elif sel == "strad_start":
        O = [((("before", 2), ("gp", 2)), 2.0, 2.0)]
    elif sel == "strad_end":
        O = [((("gp", T - 2), ("after", 2)), -2.0, 5.0)]
    elif sel == "outside_before":
        O = [((("before", 3), ("before", 1)), 2.0, 0.5), ((("gp", 1), ("gp", T - 1)), 2.0, 2.5)]
    elif sel == "outside_after":
        O = [((("gp", 1), ("gp", T - 1)), 2.0, 2.5), ((("after", 1), ("after", 3)), -2.0, 50.0)]
    elif sel == "mixed_outside":
        O = [((("before", 3), ("before", 1)), 2.0, 0.5), ((("gp", 0), ("gp", 2)), -2.0, 4.5),
             ((("after", 1), ("after", 3)), -2.0, 50.0)]
    elif sel == "between":
        O = [((("mid", 0), ("mid", T - 2)), 2.0, 2.5)]
    a = dict(type="OrderBook", name=name, nodes=[node],
             orders=dict(start=[g.instant_iso(s) for (s, e), c, p in O],
                         end=[g.instant_iso(e) for (s, e), c, p in O],
                         capa=[r(c, g) for _, c, p in O], price=[p for _, c, p in O]))
    if "ob_full" in feats:
        if ch.pick(name + ".full_exec", [False, True]):
            a["full_exec"] = True
    if "wacc" in feats:
        w = ch.pick(name + ".wacc", [0.0, 0.3])
        if w:
            a["wacc"] = w
    return a


def gen_plant(ch, g, name, nodes, feats, kind="Plant"):
    """Plant (power[, fuel]) or CHPAsset (power, heat[, fuel]) with the unit-commitment menu.
    Rates per hour, durations in hours (converted to the grid's main unit)."""
    a = dict(type=kind, name=name, nodes=list(nodes), price="p",
             min_cap=r(1.0, g), max_cap=r(10.0, g))
    if "uc_caps" in feats:
        mc = ch.pick(name + ".min_cap", [1.0, 0.0, 3.0])
        a["min_cap"] = r(mc, g)
    if "uc_ramp" in feats:
        rp = ch.pick(name + ".ramp", [None, 2.0, 4.0])
        if rp is not None:
            a["ramp"] = r(rp, g)
        ld = ch.pick(name + ".last_dispatch", [0.0, 5.0])
        if ld:
            a["last_dispatch"] = r(ld, g)
    if "uc_times" in feats:
        R = ch.pick(name + ".min_runtime", [0, 2, 3, 1])
        if R:
            a["min_runtime"] = d_(R * g.dt[0] * MTU_H[g.mtu], g)
        D = ch.pick(name + ".min_downtime", [0, 2, 3, 1])
        if D:
            a["min_downtime"] = d_(D * g.dt[0] * MTU_H[g.mtu], g)
        ini = ch.pick(name + ".initial", ["off_long", "on1", "on2", "on_long", "off1", "off2"])
        steps = {"on1": ("time_already_running", 1), "on2": ("time_already_running", 2),
                 "on_long": ("time_already_running", 10), "off1": ("time_already_off", 1),
                 "off2": ("time_already_off", 2)}
        if ini in steps:
            k, n = steps[ini]
            a[k] = d_(n * g.dt[0] * MTU_H[g.mtu], g)
        elif ini == "off_long":
            a["time_already_off"] = d_(10 * g.dt[0] * MTU_H[g.mtu], g)
        a["_initial"] = ini
    if "uc_costs" in feats:
        sc = ch.pick(name + ".start_costs", [0.0, 7.0, "dict_partial"])
        if sc == "dict_partial":   # interval data covering part of the horizon only: the rest takes the default 0
            a["start_costs"] = interval_dict(g, [((("gp", 0), ("gp", max(1, g.T // 2))), 7.0)])
        elif sc:
            a["start_costs"] = sc
        rc = ch.pick(name + ".running_costs", [0.0, 0.5, "dict_partial"])
        if rc == "dict_partial":
            a["running_costs"] = interval_dict(g, [((("gp", max(1, g.T // 2)), ("gp", g.T)), r(0.5, g))])
        elif rc:
            a["running_costs"] = r(rc, g)
    if kind != "Plant":
        if "chp_heat" in feats:
            sh = ch.pick(name + ".max_share_heat", [None, 0.5])
            if sh is not None:
                a["max_share_heat"] = sh
            cf = ch.pick(name + ".conversion", [1.0, 0.5])
            if cf != 1.0:
                a["conversion_factor_power_heat"] = cf
    has_fuel = (kind == "Plant" and len(nodes) == 2) or (kind != "Plant" and len(nodes) == 3)
    if has_fuel and "uc_fuel" in feats:
        fe = ch.pick(name + ".fuel_efficiency", [1.0, 0.5])
        if fe != 1.0:
            a["fuel_efficiency"] = fe
        ci = ch.pick(name + ".consumption_if_on", [0.0, 0.4])
        if ci:
            a["consumption_if_on"] = r(ci, g)
        sf = ch.pick(name + ".start_fuel", [0.0, 1.5])
        if sf:
            a["start_fuel"] = sf
    if "window" in feats:
        w = ch.pick(name + ".window", window_menu(g.T))
        s, e = resolve_window(g, w)
        if s:
            a["start"] = s
        if e:
            a["end"] = e
    return a


# ----------------------------------------------------------------------------- portfolios
def collect_series(assets, prices):
    """move generator-made auxiliary series (capacity series) into the price dict"""
    for a in assets:
        ser = a.pop("_series", None)
        if ser:
            prices.update(ser)
        if "base_asset" in a:
            collect_series([a["base_asset"]], prices)
        if "portfolio" in a:
            collect_series(a["portfolio"], prices)


def finish(grid_json, assets, prices, mode="mono", meta=None):
    collect_series(assets, prices)
    scn = dict(grid=grid_json, prices=prices, assets=assets, mode=mode)
    if meta:
        scn["meta"] = meta
    return scn


def strip_meta(scn):
    s = copy.deepcopy(scn)
    s.pop("meta", None)
    return s


def gen_portfolio(ch, feats):
    """The shared portfolio generator. ``feats`` (dict) selects which choice points exist:
       grids: [grid names] (first = default, each other = 1 deviation)
       price_pairs: free choice
       bases: free choice among 'one' (single node), 'two' (two nodes + transport)
       extras: list of optional extra assets ('mc', 'ob', 'dem', 'plant', 'chp')
       modes: ['mono', 'split:12h', ...]
       plus the per-asset feature keys used by gen_* above."""
    gname = ch.pick("grid", feats.get("grids", ["4x6h"]))
    gj = dict(GRIDS[gname])
    g = Grid.from_json(gj)
    T = g.T
    pair = ch.free("prices", feats.get("price_pairs", PRICE_PAIRS[:1]))
    prices = make_prices(T, pair)
    base = ch.free("base", feats.get("bases", ["one"]))
    assets = []
    if base == "one":
        nodes = ["n1"]
        assets.append(gen_contract(ch, g, "mkt", "n1", "p", (-5.0, 5.0), feats))
        assets.append(gen_contract(ch, g, "sup", "n1", "q", (0.0, 3.0), feats))
        assets.append(gen_storage(ch, g, "sto", ["n1"], feats))
    elif base == "two":
        nodes = ["n1", "n2"]
        assets.append(gen_contract(ch, g, "mkt", "n1", "p", (-5.0, 5.0), feats))
        assets.append(gen_contract(ch, g, "mk2", "n2", "q", (-4.0, 4.0), feats))
        assets.append(gen_transport(ch, g, "tr", ["n1", "n2"], feats))
        assets.append(gen_storage(ch, g, "sto", ["n2", "n1"], feats))
    else:
        raise ValueError(base)
    for ex in feats.get("extras", []):
        if not ch.pick("extra." + ex, [False, True]):
            continue
        if ex == "mc":
            if len(nodes) < 2:
                nodes.append("n2")
                assets.append(dict(type="SimpleContract", name="mk2", nodes=["n2"], price="q",
                                   min_cap=r(-4.0, g), max_cap=r(4.0, g)))
            assets.append(gen_multicommodity(ch, g, "mc", ["n1", "n2"], feats))
        elif ex == "ob":
            pos = ch.free("ob.pos", ["last", "first", "middle"])
            ob = gen_orderbook(ch, g, "ob", "n1", feats)
            if pos == "last":
                assets.append(ob)
            elif pos == "first":
                assets.insert(0, ob)
            else:
                assets.insert(1, ob)
        elif ex == "loop":      # a transport leaving and entering the SAME node (a pure loss, only sensible as a sink at negative prices)
            assets.append(dict(type="Transport", name="loop", nodes=["n1", "n1"], min_cap=r(0.0, g), max_cap=r(2.0, g),
                               efficiency=ch.pick("loop.efficiency", [0.75, 0.5]), costs_const=-0.3))
        elif ex == "mcsame":    # a multi-commodity contract attached twice to the same node (own consumption)
            assets.append(dict(type="MultiCommodityContract", name="mcs", nodes=["n1", "n1", nodes[-1]], price="ec", min_cap=r(0.0, g), max_cap=r(3.0, g),
                               factors_commodities=[1.0, ch.pick("mcs.own", [-0.25, -0.5]), 0.5]))
        elif ex == "slack":     # a penalty contract as used to keep problems feasible: a very large cost coefficient, never worth using
            assets.append(dict(type="SimpleContract", name="slack", nodes=[nodes[-1]], price="ec", extra_costs=ch.pick("slack.costs", [1e6, 1e7]),
                               min_cap=r(0.0, g), max_cap=r(1.0, g)))
        elif ex == "dem":
            assets.append(dict(type="SimpleContract", name="dem", nodes=[nodes[-1]],
                               min_cap=r(-1.0, g), max_cap=r(-1.0, g)))
        elif ex == "plant":
            assets.append(gen_plant(ch, g, "pl", ["n1"], feats, kind="Plant"))
        elif ex == "plantfuel":
            assets.append(dict(type="SimpleContract", name="gas", nodes=["nf"], price="q",
                               min_cap=r(0.0, g), max_cap=r(50.0, g)))
            assets.append(gen_plant(ch, g, "pl", ["n1", "nf"], feats, kind="Plant"))
        elif ex == "chpml":
            assets.append(dict(type="SimpleContract", name="heat", nodes=["nh"], price="q", min_cap=r(-3.0, g), max_cap=r(0.0, g)))
            a_ = gen_plant(ch, g, "chpml", ["n1", "nh"], feats, kind="CHPAsset")
            a_["type"] = "CHPAsset_with_min_load_costs"
            a_["min_load_threshhold"] = r(ch.pick("chpml.threshhold", [4.0, 2.0]), g)
            a_["min_load_costs"] = r(ch.pick("chpml.costs", [1.0, 0.0]), g)
            assets.append(a_)
        elif ex == "linked":
            p1 = dict(type="Plant", name="lp1", nodes=["n1"], price="ec", min_cap=r(1.0, g), max_cap=r(4.0, g), start_costs=2.0, time_already_off=d_(60.0, g))
            p2 = dict(type="Plant", name="lp2", nodes=["n1"], price="ec", min_cap=r(1.0, g), max_cap=r(3.0, g), time_already_off=d_(60.0, g))
            assets.append(dict(type="LinkedAsset", name="lnk", nodes=["n1"], portfolio=[p1, p2], asset1_variable=["lp2", "disp", "n1"],
                               asset2_variable=["lp1", "bool_on", None], asset2_time_already_running=0,
                               time_back=ch.pick("lnk.time_back", [1, 2]), time_forward=0))
        elif ex == "chp":
            assets.append(dict(type="SimpleContract", name="heat", nodes=["nh"], price="q",
                               min_cap=r(-3.0, g), max_cap=r(0.0, g)))
            assets.append(dict(type="SimpleContract", name="gas", nodes=["nf"], price="ec",
                               min_cap=r(0.0, g), max_cap=r(80.0, g)))
            assets.append(gen_plant(ch, g, "chp", ["n1", "nh", "nf"], feats, kind="CHPAsset"))
    if feats.get("common_window"):
        # one life time shared by every asset that can have one (a portfolio commissioned late / decommissioned early as a whole):
        # in a split run whole intervals are then without any active asset
        cw = ch.pick("all.window", [None] + [window_menu(T)[i] for i in feats["common_window"]])
        if cw is not None:
            s_, e_ = resolve_window(g, cw)
            for a_ in assets:
                if a_["type"] in ("OrderBook", "LinkedAsset") or a_.get("start") or a_.get("end"):
                    continue
                if s_:
                    a_["start"] = s_
                if e_:
                    a_["end"] = e_
    mode = ch.pick("mode", feats.get("modes", ["mono"]))
    scn = finish(gj, assets, prices, mode=mode)
    if g.tz and any(a["type"] == "OrderBook" for a in assets):
        # an order book compares its order dates with the grid directly (it does not localise naive dates):
        # on a zone-aware grid the dates are given zone-aware, as a user has to
        scn["date_tz"] = g.tz
    return scn


# ----------------------------------------------------------------------------- tags
_SKIP_PARAMS = {"type", "name", "nodes", "price", "min_cap", "max_cap", "size", "cap_in", "cap_out"}


def feature_tags(scn):
    """Feature tags of a scenario, used to identify finding classes / known findings."""
    tags = set()
    g = scn["grid"]
    if g.get("tz"):
        tags.add("grid:tz")
    if g.get("mtu", "h") != "h":
        tags.add("grid:mtu=" + g["mtu"])
    tags.add("grid:freq=" + g.get("freq", "h"))
    tags.add("mode:" + scn.get("mode", "mono").split(":")[0])

    G = Grid.from_json(g)

    def walk(a, prefix=""):
        t = a["type"]
        tags.add("has:" + prefix + t)
        if (a.get("start") or a.get("end")) and not G.window(a.get("start"), a.get("end"), scn.get("date_tz")):
            tags.add("empty_window")
            tags.add("empty_window:" + prefix + t)
        for k, v in a.items():
            if k.startswith("_") or k in _SKIP_PARAMS:
                continue
            if k == "base_asset":
                walk(v, prefix + "scaled.")
            elif k == "portfolio":
                for x in v:
                    walk(x, prefix + "struct.")
            elif v not in (None, 0, 0.0, False):
                tags.add("param:%s%s.%s" % (prefix, t, k))
        for k in ("min_cap", "max_cap"):
            if isinstance(a.get(k), dict):
                tags.add("param:%s%s.caps_dict" % (prefix, t))
            elif isinstance(a.get(k), str):
                tags.add("param:%s%s.caps_series" % (prefix, t))
    for a in scn["assets"]:
        walk(a)
    return sorted(tags)
