"""Scenario (JSON) -> fresh EAO objects -> problem / results / output tables.

This is the only module (besides the checks' impl-side code) that imports eaopack.
Fresh objects are built for every execution; nothing is cached between executions.
"""
import copy
import numpy as np
import pandas as pd

import eaopack as eao
from eaopack.assets import (Node, Timegrid, Storage, SimpleContract, Contract, Transport,
                            ExtendedTransport, MultiCommodityContract, CHPAsset, Plant,
                            CHPAsset_with_min_load_costs, ScaledAsset, OrderBook)
from eaopack.portfolio import Portfolio, StructuredAsset, LinkedAsset

CLASSES = dict(Storage=Storage, SimpleContract=SimpleContract, Contract=Contract,
               Transport=Transport, ExtendedTransport=ExtendedTransport,
               MultiCommodityContract=MultiCommodityContract, CHPAsset=CHPAsset, Plant=Plant,
               CHPAsset_with_min_load_costs=CHPAsset_with_min_load_costs,
               ScaledAsset=ScaledAsset, OrderBook=OrderBook, StructuredAsset=StructuredAsset,
               LinkedAsset=LinkedAsset)

DATE_KEYS = ("start", "end")


ZONE = [None]  # zone of the scenario's grid: aware ISO strings (given with an offset only
              # where the wall-clock time is ambiguous) are converted to it, as a user would


def ts(s, tz=None):
    if s is None:
        return None
    t = pd.Timestamp(s)
    if t.tzinfo is not None:
        if ZONE[0]:
            t = t.tz_convert(ZONE[0])
    elif tz is not None:
        t = t.tz_localize(tz)
    return t


def build_grid(g):
    return Timegrid(ts(g["start"]), ts(g["end"]), freq=g.get("freq", "h"),
                    main_time_unit=g.get("mtu", "h"), timezone=g.get("tz"))


def _interval_dict(d, tz):
    """{'start':[iso..],'end':[iso..],'values':[..],'form':..} -> EAO interval dict."""
    form = d.get("form", "list")
    out = {}
    for k in DATE_KEYS:
        if k in d and d[k] is not None:
            v = d[k]
            if isinstance(v, list):
                vals = [ts(x, tz) for x in v]
                if form == "array":
                    out[k] = np.array([np.datetime64(x.tz_localize(None) if x.tzinfo else x) for x in vals])
                elif form == "index":
                    out[k] = pd.DatetimeIndex(vals)
                elif form == "index_freq":   # an index that carries its (calendar) frequency, as pd.date_range gives
                    out[k] = pd.DatetimeIndex(vals, freq="D")
                elif form == "pylist":    # plain python datetime objects, as a user writes them
                    out[k] = [x.to_pydatetime() for x in vals]
                elif form == "objarray":  # what Series.to_numpy() gives for a (zone-aware) date column
                    arr = np.empty(len(vals), dtype=object)
                    for i_, x_ in enumerate(vals):
                        arr[i_] = x_
                    out[k] = arr
                else:
                    out[k] = vals
            else:
                out[k] = ts(v, tz)
    v = d["values"]
    if isinstance(v, list):
        out["values"] = np.array(v, dtype=float) if form == "array" else list(v)
    else:
        out["values"] = v
    return out


def _orders(o, tz, zone=None):
    def z(t):   # the same instants, stamped in another zone than the grid's
        return t.tz_convert(zone) if (zone and t.tzinfo is not None) else t
    return dict(start=[z(ts(x, tz)) for x in o["start"]], end=[z(ts(x, tz)) for x in o["end"]],
                capa=list(o["capa"]), price=list(o["price"]))


def build_asset(a, nodes, tz=None):
    a = copy.deepcopy(a)
    typ = a.pop("type")
    cls = CLASSES[typ]
    kw = {}
    node_names = a.pop("nodes", None)
    for k, v in a.items():
        if k.startswith("_") and k != "_no_heat":
            continue  # generator annotations, not constructor arguments
        if k in DATE_KEYS:
            kw[k] = ts(v, tz)
        elif k == "orders":
            kw[k] = _orders(v, tz, a.get("orders_zone"))
        elif k == "orders_zone":
            pass
        elif k == "orders_df":
            pass
        elif k == "base_asset":
            kw[k] = build_asset(v, nodes, tz)
        elif k == "portfolio":
            kw[k] = Portfolio([build_asset(x, nodes, tz) for x in v])
        elif isinstance(v, dict) and "values" in v:
            kw[k] = _interval_dict(v, tz)
        else:
            kw[k] = v
    if node_names is not None and typ != "ScaledAsset":
        if a.get("_fresh_nodes"):   # node objects of its own (same names): assets built in different places, or loaded from JSON
            nn = [Node(n) for n in node_names]
        else:
            nn = [nodes.setdefault(n, Node(n)) for n in node_names]
        if typ in ("Storage", "SimpleContract", "Contract", "OrderBook") and len(nn) == 1:
            kw["nodes"] = nn[0]
        else:
            kw["nodes"] = nn
    if a.get("orders_df"):
        kw["orders"] = pd.DataFrame(kw["orders"])
    if a.get("_profile_arrays"):   # start / shutdown ramp profiles handed over as float arrays
        for k in list(kw):
            if k.endswith("_ramp_lower_bounds") or k.endswith("_ramp_upper_bounds"):
                kw[k] = np.array(kw[k], dtype=float)
    return cls(**kw)


def build(scn):
    """-> (portfolio, timegrid, prices)"""
    tz = scn.get("date_tz")
    ZONE[0] = scn["grid"].get("tz")
    nodes = {}
    assets = [build_asset(a, nodes, tz) for a in scn["assets"]]
    tg = build_grid(scn["grid"])
    prices = {k: np.array(v, dtype=float) for k, v in scn.get("prices", {}).items()}
    return Portfolio(assets), tg, prices


def setup(scn):
    """-> (portfolio, timegrid, prices, op) honouring scn['mode']"""
    portf, tg, prices = build(scn)
    mode = scn.get("mode", "mono")
    if mode == "mono":
        op = portf.setup_optim_problem(prices, tg)
    elif mode.startswith("split:"):
        op = portf.setup_split_optim_problem(prices, tg, interval_size=mode.split(":", 1)[1])
    else:
        raise ValueError(mode)
    return portf, tg, prices, op


def solve(op, solver="SCIPY"):
    if solver is None:
        return op.optimize()
    return op.optimize(solver=solver)


def dispatch_table(out, scn):
    """Dispatch DataFrame -> {(asset, node): np.array(T)} using the column naming rule of
    extract_output: '<asset>' in a one-node portfolio, '<asset> (<node>)' otherwise."""
    disp = out["dispatch"]
    res = {}
    for col in disp.columns:
        res[col] = disp[col].values.astype(float)
    return res


def problem_arrays(op):
    """Dense copies of the assembled problem for direct use with HiGHS."""
    A = op.A
    if A is not None:
        A = np.asarray(A.todense()) if hasattr(A, "todense") else np.asarray(A)
    return dict(c=np.asarray(op.c, float), l=np.asarray(op.l, float), u=np.asarray(op.u, float),
                A=A, b=None if op.b is None else np.asarray(op.b, float), cType=op.cType or "")
