"""Canonical hashing of EAO object state and of produced problems (for E2 history search).

The canonical form contains what later calls can observe: every asset's attribute
dictionary with its time grid replaced by the LABEL of the grid object it points to,
every grid object's attributes including the cached restricted sub-grid and discount
factors, the portfolio's current grid label, and user-supplied dictionaries / arrays by
VALUE AND TYPE (a list turned into a tz-aware DatetimeIndex is a different state).
"""
import hashlib
import datetime as dt
import numpy as np
import pandas as pd


def _h(s):
    return hashlib.sha1(s.encode()).hexdigest()[:16]


def canon(v, labels, depth=0):
    from eaopack.basic_classes import Timegrid, Node
    from eaopack.assets import Asset
    from eaopack.portfolio import Portfolio
    if depth > 12:
        return ("deep",)
    if v is None or isinstance(v, (bool, str)):
        return (type(v).__name__, v)
    if isinstance(v, (int, np.integer)):
        return ("int", int(v))
    if isinstance(v, (float, np.floating)):
        return ("float", repr(round(float(v), 12)))
    if isinstance(v, Timegrid):
        lab = labels.get(id(v))
        if lab is not None and depth > 0:
            return ("grid", lab)
        return ("gridobj", canon_grid(v, labels, depth + 1))
    if isinstance(v, Node):
        return ("node", v.name)
    if isinstance(v, pd.Timestamp):
        return ("ts", int(v.value), str(v.tz))
    if isinstance(v, dt.datetime):
        return ("datetime", v.isoformat())
    if isinstance(v, dt.date):
        return ("date", v.isoformat())
    if isinstance(v, pd.DatetimeIndex):
        return ("dti", str(v.tz), tuple(int(x) for x in v.asi8))
    if isinstance(v, np.ndarray):
        if v.dtype == object:
            return ("ndobj", tuple(canon(x, labels, depth + 1) for x in v.tolist()))
        if np.issubdtype(v.dtype, np.datetime64):
            return ("nddt", tuple(int(x) for x in v.astype("datetime64[ns]").astype(np.int64)))
        return ("nd", str(v.dtype), v.shape, _h(np.round(v.astype(float), 10).tobytes().hex()) if v.size else "")
    if isinstance(v, pd.Series):
        return ("series", canon(v.values, labels, depth + 1))
    if isinstance(v, pd.DataFrame):
        return ("df", tuple(v.columns), _h(v.to_csv()))
    if isinstance(v, dict):
        return ("dict", tuple(sorted((str(k), canon(x, labels, depth + 1)) for k, x in v.items())))
    if isinstance(v, (list, tuple)):
        return (type(v).__name__, tuple(canon(x, labels, depth + 1) for x in v))
    if isinstance(v, Portfolio):
        d = {k: x for k, x in v.__dict__.items()}
        return ("portfolio", tuple(sorted((k, canon(x, labels, depth + 1)) for k, x in d.items())))
    if isinstance(v, Asset):
        d = {k: x for k, x in v.__dict__.items()}
        return ("asset", type(v).__name__, tuple(sorted((k, canon(x, labels, depth + 1)) for k, x in d.items())))
    return ("other", type(v).__name__, repr(v)[:80])


def canon_grid(g, labels, depth=0):
    out = []
    for k in sorted(g.__dict__):
        x = g.__dict__[k]
        if k == "restricted":
            out.append((k, ("gridobj", canon_grid(x, labels, depth + 1))))
        else:
            out.append((k, canon(x, labels, depth + 1)))
    return tuple(out)


def state_key(objects, grids):
    """objects: dict name -> object (assets, portfolios, user data); grids: dict label -> Timegrid"""
    labels = {id(g): lab for lab, g in grids.items()}
    parts = [("G:" + lab, canon_grid(g, labels, 1)) for lab, g in sorted(grids.items())]
    parts += [("O:" + name, canon(o, labels, 1)) for name, o in sorted(objects.items())]
    return _h(repr(parts))


def problem_hash(op):
    """canonical hash of (c,l,u,A,b,cType, mapping multiset) of an OptimProblem / SplitOptimProblem"""
    if op is None:
        return "none"
    if hasattr(op, "ops"):
        return _h(repr(["split"] + [problem_hash(o) for o in op.ops] + [_mapping_rows(op.mapping)]))
    parts = []
    for nm in ("c", "l", "u", "b"):
        v = getattr(op, nm, None)
        parts.append(None if v is None else tuple(np.round(np.asarray(v, float), 9).tolist()))
    A = op.A
    if A is not None:
        A = A.tocoo()
        tri = sorted((int(i), int(j), round(float(x), 9)) for i, j, x in zip(A.row, A.col, A.data) if abs(x) > 1e-13)
        parts.append((A.shape, tuple(tri)))
    else:
        parts.append(None)
    parts.append(op.cType)
    parts.append(_mapping_rows(op.mapping))
    parts.append(tuple((int(t), str(n)) for t, n in (op.map_nodal_restr or [])))
    return _h(repr(parts))


def _mapping_rows(m):
    if m is None or len(m) == 0:
        return ()
    rows = []
    cols = [c for c in ("asset", "node", "type", "time_step", "var_name", "disp_factor", "bool") if c in m.columns]
    for idx, r in zip(m.index.values, m[cols].itertuples(index=False)):
        vals = []
        for x in r:
            if isinstance(x, float):
                vals.append("nan" if np.isnan(x) else repr(round(x, 9)))
            else:
                vals.append(str(x))
        rows.append((str(idx),) + tuple(vals))
    return tuple(sorted(rows))


def module_state_hash():
    """hash of everything mutable that lives OUTSIDE the objects hashed by state_key: module-level containers of the
    eaopack modules and the default arguments of their functions and methods (a mutable default such as `skip_nodes=[]`
    is shared state). E2 merges states on the assumption that this never changes; the assumption is checked on every
    transition."""
    import sys
    import inspect
    parts = []
    for mname in sorted(m for m in sys.modules if m == "eaopack" or m.startswith("eaopack.")):
        mod = sys.modules[mname]
        for name, val in sorted(vars(mod).items()):
            if name.startswith("__"):
                continue
            if isinstance(val, (dict, list, set)):
                parts.append((mname, name, repr(val)[:2000]))
            elif inspect.isfunction(val) and val.__module__ == mname:
                parts.append((mname, name, "defaults", repr(val.__defaults__)[:500], repr(val.__kwdefaults__)[:300]))
            elif inspect.isclass(val) and val.__module__ == mname:
                for an, av in sorted(vars(val).items()):
                    f = av.fget if isinstance(av, property) else av
                    if inspect.isfunction(f):
                        d = f.__defaults__
                        # Node / Unit default objects are compared by their attribute values
                        parts.append((mname, name, an, repr([getattr(x, "__dict__", x) if not isinstance(x, (int, float, str, type(None), bool, list, dict, tuple)) else x
                                                             for x in (d or ())])[:800]))
                    elif isinstance(av, (dict, list, set)) and not (an.startswith("__") and an.endswith("__")):
                        # (dunder caches such as __slotnames__, written by copy / pickle, are interpreter bookkeeping)
                        parts.append((mname, name, an, repr(av)[:800]))
    return _h(repr(parts))
