"""Check runner: case distribution, violation protocol, known findings, evidence."""
import os
import sys
import json
import time
import importlib
import collections

from . import pool
from .explore import chash, canon

VERIF = os.path.dirname(os.path.dirname(os.path.abspath(__file__)))
REPO = os.environ.get("EAO_REPO", "/repo")
KNOWN_FILE = os.path.join(VERIF, "known_findings.json")

EXIT_OK, EXIT_VIOLATION, EXIT_FRAMEWORK = 0, 1, 2


UNIT_TEST = '''"""replays one recorded violation of %(prop)s against the current tree (run with /venv/bin/python -m pytest <this file>)"""
import json, sys
sys.path[:0] = ["%(verif)s", "%(repo)s"]


def test_replay():
    import importlib
    mod = importlib.import_module("%(mod)s")
    case = json.load(open("%(path)s"))["case"]
    res = getattr(mod, "%(func)s")(case)
    assert not res.get("violations"), [v["oracle"] + ": " + v["msg"] for v in res["violations"]]
'''


def load_known():
    if not os.path.exists(KNOWN_FILE):
        return []
    with open(KNOWN_FILE) as f:
        return json.load(f).get("findings", [])


def match_known(prop, viol, known):
    """A violation matches a known finding iff same property, same oracle and every
    required tag is present (and no forbidden tag). 'fixed' entries never match."""
    tags = set(viol.get("tags", []))
    for e in known:
        if e.get("status") != "known":
            continue
        if e["property"] != prop or e["oracle"] != viol["oracle"]:
            continue
        if not set(e.get("requires", [])) <= tags:
            continue
        if set(e.get("forbids", [])) & tags:
            continue
        return e
    return None


class Run:
    def __init__(self, mod, tier, seed):
        self.mod = mod
        self.prop = mod.PROPERTY
        self.tier = tier
        self.seed = seed
        self.t0 = time.time()
        max_s = os.environ.get("VERIF_MAX_S")
        if max_s is None:
            max_s = getattr(mod, "MAX_S", {}).get(tier, 900 if tier == "quick" else 7200)
        self.deadline = self.t0 + float(max_s)
        self.known = load_known()
        self.counters = collections.Counter()
        self.outcomes = collections.Counter()
        self.nontrivial_keys = set()
        self.all_keys = set()
        self.evaluations = 0
        self.validated = 0
        self.viol_classes = collections.OrderedDict()  # class key -> (case, viol)
        self.n_viol = 0
        self.framework_errors = []
        self.capped = False
        self.sample_pool = []
        self.stats = {}
        self.notes = []

    # ------------------------------------------------------------------ running
    def map(self, func_name, cases, chunk=None):
        if chunk is None:
            chunk = max(1, min(16, len(cases) // (pool.N_WORKERS * 4) or 1))
        if not getattr(self, "_grace_given", False):
            # generating the case list of a thorough tier takes minutes for the largest families: a time cap always leaves the
            # execution phase at least one minute (the run is then reported as capped, not as vacuous)
            self._grace_given = True
            self.deadline = max(self.deadline, time.time() + 60.0)
        stop_if = None
        if os.environ.get("VERIF_STOP_AT_FIRST"):   # validation of seeded changes only: stop at the first violation that is not a known finding
            def stop_if(r):
                return any(match_known(self.prop, v, self.known) is None for v in (r.get("violations") or []))
        res = pool.run_cases(self.mod.__name__, func_name, cases, REPO, chunk=chunk,
                             seed=self.seed, deadline=self.deadline, stop_if=stop_if)
        if any(r is None for r in res):
            self.capped = True
        return res

    def determinism_probe(self, func_name, cases, n=12):
        probe = cases[:n]
        if not probe:
            return
        a, b = pool.run_twice_separately(self.mod.__name__, func_name, probe, REPO)
        for i, (ra, rb) in enumerate(zip(a, b)):
            fa, fb = ra.get("fingerprint"), rb.get("fingerprint")
            if fa != fb or ra.get("status") != rb.get("status"):
                print("NONDETERMINISM property=%s case=%d %r vs %r" % (self.prop, i, fa, fb))
                self.framework_errors.append("nondeterminism on case %d" % i)

    def add(self, cases, results):
        for case, r in zip(cases, results):
            if r is None:
                continue
            self.evaluations += 1
            key = case.get("key") or chash(case)
            self.all_keys.add(key)
            st = r.get("status", "ok")
            self.counters["status:" + st] += 1
            if st == "framework_error":
                self.framework_errors.append(r.get("error", "") + "\n" + r.get("tb", ""))
                continue
            for k, v in (r.get("counters") or {}).items():
                self.counters[k] += v
            if r.get("validated", st == "ok"):
                self.validated += 1
            if r.get("nontrivial"):
                self.nontrivial_keys.add(key)
            if "outcome" in r:
                self.outcomes[str(r["outcome"])] += 1
            if len(self.sample_pool) < 4000:
                self.sample_pool.append(case)
            for v in r.get("violations") or []:
                self.n_viol += 1
                ck = (v["oracle"], tuple(sorted(v.get("class_tags", v.get("tags", [])))))
                if ck not in self.viol_classes:
                    self.viol_classes[ck] = (case, v)

    # ------------------------------------------------------------------ finishing
    def finish(self, stats, extra_cov=None):
        mod = self.mod
        wall = time.time() - self.t0
        outdir = os.path.join(os.environ.get("VERIF_OUT_DIR", os.path.join(VERIF, "out")), "violations", self.prop)
        if os.path.isdir(outdir):  # replay artefacts of earlier runs are stale
            for fn in os.listdir(outdir):
                if fn.endswith(".json") or fn.endswith("_test.py"):
                    os.remove(os.path.join(outdir, fn))
        reported, known_hits = [], collections.OrderedDict()
        for ck, (case, v) in self.viol_classes.items():
            e = match_known(self.prop, v, self.known)
            if e is not None:
                if e["id"] not in known_hits:
                    os.makedirs(outdir, exist_ok=True)
                    with open(os.path.join(outdir, "known-%s.json" % e["id"]), "w") as f:
                        json.dump(dict(property=self.prop, case=case, violation=v, known_finding=e["id"],
                                       func=getattr(self.mod, "REPLAY_FUNC", "run_case")), f, indent=1, sort_keys=True, default=str)
                known_hits.setdefault(e["id"], (e, case, v))
                continue
            os.makedirs(outdir, exist_ok=True)
            name = "%s-%s.json" % (v["oracle"].replace("/", "_"), chash([case.get("key"), ck]))
            path = os.path.join(outdir, name)
            with open(path, "w") as f:
                json.dump(dict(property=self.prop, case=case, violation=v, func=getattr(self.mod, "REPLAY_FUNC", "run_case")), f, indent=1,
                          sort_keys=True, default=str)
            with open(path[:-5] + "_test.py", "w") as f:   # plain unit test replaying the case without any explorer
                f.write(UNIT_TEST % dict(verif=VERIF, repo=REPO, prop=self.prop, mod=self.mod.__name__,
                                         func=getattr(self.mod, "REPLAY_FUNC", "run_case"), path=path))
            reported.append((path, v))
        for eid, (e, case, v) in known_hits.items():
            print("KNOWN-FINDING: property=%s %s [%s]" % (self.prop, e["what"], eid))
        for path, v in reported[:40]:
            print("VIOLATION property=%s replay=%s" % (self.prop, path))
            print("   oracle=%s tags=%s :: %s" % (v["oracle"], ",".join(v.get("tags", [])), v.get("msg", "")[:300]))
        if len(reported) > 40:
            print("   ... %d further violation classes written under %s" % (len(reported) - 40, outdir))

        n_states = stats.get("states", len(self.all_keys))
        nontriv = len(self.nontrivial_keys)
        # sample selection (seed-dependent, exploration is not)
        samples = []
        if self.sample_pool:
            step = max(1, len(self.sample_pool) // 3)
            for j in range(3):
                samples.append(self.sample_pool[(self.seed * 7 + j * step) % len(self.sample_pool)])
        cov = dict(
            states=max(1, n_states),
            transitions=max(1, stats.get("transitions", self.evaluations)),
            traces_validated_against_impl=self.validated,
            evaluations=self.evaluations,
            distinct_nontrivial=nontriv,
            rule=getattr(mod, "RULE", ""),
            samples=samples if samples else [{"note": "no case executed"}],
            exhaustive=(not self.capped) and not stats.get("capped", False),
            capped=bool(self.capped or stats.get("capped", False)),
            bound=stats.get("bound", {}),
            explorer=stats.get("explorer", ""),
            distinct_outcomes=len(self.outcomes),
            outcome_histogram=dict(self.outcomes.most_common(12)),
            counters=dict(sorted(self.counters.items())),
            violation_classes=len(self.viol_classes),
            known_findings_hit=sorted(known_hits),
            explanation=getattr(mod, "EXPLANATION", ""),
        )
        if extra_cov:
            cov.update(extra_cov)
        for k, v in stats.items():
            cov.setdefault("explorer_" + k, v)
        ev = dict(property_id=self.prop, tier=self.tier, seed=self.seed, level="model_checking",
                  coverage=cov, assumptions=list(getattr(mod, "ASSUMPTIONS", [])),
                  wall_s=round(wall, 2), violations=len(reported),
                  repo=REPO, notes=self.notes)
        evdir = os.environ.get("VERIF_EVIDENCE_DIR", os.path.join(VERIF, "evidence"))
        os.makedirs(evdir, exist_ok=True)
        with open(os.path.join(evdir, self.prop + ".json"), "w") as f:
            json.dump(ev, f, indent=1, sort_keys=True, default=str)

        print("[%s %s] states=%d transitions=%d executions=%d validated=%d nontrivial=%d outcomes=%d "
              "violation_classes=%d (known %d) capped=%s wall=%.1fs"
              % (self.prop, self.tier, cov["states"], cov["transitions"], self.evaluations,
                 self.validated, nontriv, len(self.outcomes), len(self.viol_classes),
                 len(known_hits), cov["capped"], wall))
        interesting = {k: v for k, v in self.counters.items()}
        print("   counters: " + ", ".join("%s=%d" % kv for kv in sorted(interesting.items())))
        if self.framework_errors:
            print("FRAMEWORK-ERROR property=%s (%d) first: %s" % (self.prop, len(self.framework_errors),
                                                                  self.framework_errors[0][:1500]))
            return EXIT_FRAMEWORK if not reported else EXIT_VIOLATION
        if reported:
            return EXIT_VIOLATION
        # vacuity guards (never exit 0 on an exploration that shows nothing)
        min_frac = getattr(mod, "MIN_NONTRIVIAL_FRACTION", 0.3)
        if self.evaluations == 0 or nontriv < max(2, min_frac * len(self.all_keys)):
            print("VACUOUS property=%s nontrivial=%d of %d distinct cases (floor %.0f%%)"
                  % (self.prop, nontriv, len(self.all_keys), 100 * min_frac))
            return EXIT_FRAMEWORK
        if self.capped:
            print("CAPPED property=%s: time cap hit, evidence says capped=true" % self.prop)
        return EXIT_OK


def default_main(mod, run):
    cases, stats = mod.build_cases(run.tier)
    if getattr(mod, "DETERMINISM_PROBE", True):
        run.determinism_probe("run_case", cases)
    results = run.map("run_case", cases, chunk=getattr(mod, "CHUNK", None))
    run.add(cases, results)
    return run.finish(stats)


def run_check(prop, tier, seed):
    mod = importlib.import_module("checks." + prop.lower())
    run = Run(mod, tier, seed)
    if hasattr(mod, "main"):
        return mod.main(run)
    return default_main(mod, run)


def replay(prop, path):
    mod = importlib.import_module("checks." + prop.lower())
    with open(path) as f:
        doc = json.load(f)
    case = doc["case"]
    fn = getattr(mod, doc.get("func", "run_case"))
    if REPO not in sys.path:
        sys.path.insert(0, REPO)
    r = fn(case)
    known = load_known()
    bad = 0
    for v in r.get("violations") or []:
        e = match_known(prop, v, known)
        if e is not None:
            print("KNOWN-FINDING: property=%s %s [%s]" % (prop, e["what"], e["id"]))
        else:
            bad += 1
            print("VIOLATION property=%s replay=%s" % (prop, path))
            print("   oracle=%s :: %s" % (v["oracle"], v.get("msg", "")))
    print(json.dumps({k: v for k, v in r.items() if k != "violations"}, default=str)[:2000])
    return EXIT_VIOLATION if bad else EXIT_OK
