"""Explorers.

E1  deviation-bounded stateless choice-tree search (iterative context bounding with
    "preemption" replaced by "departure from the default answer of a choice point").
E2  explicit-state breadth-first search over API histories (see mc/history.py for the
    object-state canonicaliser; the search loop itself is generic and lives here).
E3  full products over small closed alphabets.

Nothing here imports eaopack: generators only build JSON scenarios.
"""
import itertools
import json
import hashlib


class ReplayDivergence(Exception):
    pass


class Chooser:
    """Answers choice points of a scenario generator.

    Replays ``prefix`` (an out-of-range choice is a hard error) and answers 0, the
    default, at every later point, recording every point it meets.
    """

    def __init__(self, prefix=()):
        self.prefix = list(prefix)
        self.trace = []  # (name, n_options, cost, choice)

    def pick(self, name, options, cost=1):
        options = list(options)
        i = len(self.trace)
        c = self.prefix[i] if i < len(self.prefix) else 0
        if not (0 <= c < len(options)):
            raise ReplayDivergence("choice %d out of range at point %d (%s, %d options)"
                                   % (c, i, name, len(options)))
        self.trace.append((name, len(options), cost, c))
        return options[c]

    # convenience: a free (cost 0) choice
    def free(self, name, options):
        return self.pick(name, options, cost=0)

    def deviations(self):
        return [(n, c) for (n, _, cost, c) in self.trace if c != 0]

    def cost(self):
        return sum(cost for (_, _, cost, c) in self.trace if c != 0)


def canon(obj):
    """Canonical JSON text of a scenario (sorted keys, compact)."""
    return json.dumps(obj, sort_keys=True, separators=(",", ":"), default=str)


def chash(obj):
    return hashlib.sha1(canon(obj).encode()).hexdigest()[:16]


def explore_e1(gen, K, max_cases=None):
    """Enumerate every execution of ``gen`` with at most K costed deviations.

    Returns (cases, stats). A case is dict(choices=[...], deviations=[(name, alt)...],
    cost=int, scenario=<whatever gen returned>). Cases whose scenario is None are
    dropped (the generator may reject a combination). Duplicates (same canonical
    scenario reached by different choice vectors) are merged; the first, i.e. the one
    found with the fewest/earliest deviations, is kept.
    """
    seen = {}
    order = []
    transitions = 0
    executions = 0
    rejected = 0
    capped = False
    # breadth-first by cost so that the first representative of a scenario has minimal cost
    frontier = [[]]
    by_cost = {0: [[]]}
    for k in range(0, K + 1):
        work = by_cost.get(k, [])
        idx = 0
        while idx < len(work):
            prefix = work[idx]
            idx += 1
            ch = Chooser(prefix)
            scn = gen(ch)
            executions += 1
            if len(ch.trace) < len(prefix):
                raise ReplayDivergence("generator consumed fewer points than the prefix has")
            used = sum(cost for (_, _, cost, c) in ch.trace[:len(prefix)] if c != 0)
            assert used == k or len(prefix) == 0, (used, k, prefix)
            if scn is None:
                rejected += 1
            else:
                key = chash(scn)
                if key not in seen:
                    seen[key] = dict(choices=[t[3] for t in ch.trace],
                                     deviations=ch.deviations(), cost=ch.cost(),
                                     scenario=scn, key=key)
                    order.append(key)
            # branch on every later point
            base = [t[3] for t in ch.trace]
            for i in range(len(prefix), len(ch.trace)):
                name, n, cost, c = ch.trace[i]
                newk = used + cost
                if newk > K:
                    continue
                for alt in range(1, n):
                    by_cost.setdefault(newk, []).append(base[:i] + [alt])
                    transitions += 1
            if max_cases is not None and len(order) >= max_cases:
                capped = True
                break
        if capped:
            break
    cases = [seen[k] for k in order]
    stats = dict(explorer="E1", bound_K=K, executions=executions, transitions=transitions,
                 states=len(cases), rejected=rejected, capped=capped)
    return cases, stats


def product_e3(**menus):
    """Full product over named finite menus, in deterministic (given) order."""
    names = list(menus)
    for combo in itertools.product(*[menus[n] for n in names]):
        yield dict(zip(names, combo))


def bfs_e2(initial_events, enabled, build_and_key, max_depth, max_states=None):
    """Explicit-state BFS over event histories.

    ``enabled(hist)`` -> list of events; ``build_and_key(hist)`` -> (key, info) runs the
    real code on a fresh object replaying ``hist`` and returns the canonical state key
    plus an info dict (may contain 'violations'). Histories reaching a seen key are not
    extended. Returns (visited: list of (hist, key, info), stats).
    """
    import collections
    seen = set()
    frontier = collections.deque([list(initial_events)])
    visited = []
    transitions = 0
    maxd = 0
    capped = False
    k0, info0 = build_and_key(list(initial_events))
    seen.add(k0)
    visited.append((list(initial_events), k0, info0))
    while frontier:
        hist = frontier.popleft()
        if len(hist) - len(initial_events) >= max_depth:
            continue
        for ev in enabled(hist):
            nxt = hist + [ev]
            k, info = build_and_key(nxt)
            transitions += 1
            maxd = max(maxd, len(nxt) - len(initial_events))
            visited.append((nxt, k, info))
            if k not in seen:
                seen.add(k)
                if not info.get("stop"):
                    frontier.append(nxt)
            if max_states is not None and len(seen) >= max_states:
                capped = True
                frontier.clear()
                break
    stats = dict(explorer="E2", states=len(seen), transitions=transitions, max_depth=maxd,
                 depth_bound=max_depth, capped=capped)
    return visited, stats
