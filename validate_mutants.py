#!/venv/bin/python
"""Validate seeded property-breaking changes and run the checks against them.

usage: validate_mutants.py <mutant dir> [--checks C07,C04] [--tier quick] [--keep-as <id>] [--skip-tests]

A mutant dir holds patch.diff, demo.py, meta.json (as written by an independent sub-agent).
Steps, all on a scratch copy of /repo's working tree outside /repo and /verif (removed
afterwards): git apply the patch; run the repository's own suite (must pass); run demo.py
with the patch (must exit 1) and against /repo (must exit 0); run the named checks with
EAO_REPO=<scratch> (a detection is exit 1 with a VIOLATION line). With --keep-as the mutant
is copied to /verif/seeded/<id>/ with a meta.json recording what was run and seen.
"""
import argparse
import json
import os
import shutil
import subprocess
import sys
import tempfile
import time

VERIF = os.path.dirname(os.path.abspath(__file__))


def sh(cmd, cwd=None, env=None, timeout=3600):
    p = subprocess.run(cmd, shell=True, cwd=cwd, env=env, stdout=subprocess.PIPE, stderr=subprocess.STDOUT,
                       timeout=timeout, text=True)
    return p.returncode, p.stdout


def main():
    ap = argparse.ArgumentParser()
    ap.add_argument("mutant")
    ap.add_argument("--checks", default="")
    ap.add_argument("--tier", default="quick")
    ap.add_argument("--keep-as")
    ap.add_argument("--skip-tests", action="store_true")
    ap.add_argument("--seeds", default="0")
    a = ap.parse_args()
    mdir = os.path.abspath(a.mutant)
    meta = json.load(open(os.path.join(mdir, "meta.json"))) if os.path.exists(os.path.join(mdir, "meta.json")) else {}
    scratch = tempfile.mkdtemp(prefix="eao_mut_", dir="/var/tmp")
    report = dict(mutant=mdir, property=meta.get("property"), summary=meta.get("summary"), needs=meta.get("needs"))
    try:
        rc, out = sh("git -C /repo ls-files -z | xargs -0 -I{} cp --parents {} %s/" % scratch, cwd="/repo")
        rc, out = sh("git init -q . && git apply --whitespace=nowarn %s/patch.diff" % mdir, cwd=scratch)
        report["applies"] = rc == 0
        if rc != 0:
            report["apply_output"] = out[-600:]
            print(json.dumps(report, indent=1))
            return 3
        env = dict(os.environ, PYTHONPATH=scratch)
        if not a.skip_tests:
            t0 = time.time()
            rc, out = sh("/venv/bin/python -m pytest -q -p no:cacheprovider -n 8 --timeout=900 2>&1 | tail -3", cwd=scratch, env=env)
            report["tests_pass"] = (" failed" not in out and " error" not in out and "passed" in out)
            report["tests_tail"] = out.strip().splitlines()[-1] if out.strip() else ""
        if os.path.exists(os.path.join(mdir, "demo.py")):
            rc, out = sh("/venv/bin/python %s/demo.py" % mdir, cwd=scratch, env=env, timeout=900)
            report["demo_with_patch_rc"] = rc
            rc, out = sh("/venv/bin/python %s/demo.py" % mdir, cwd="/var/tmp", env=dict(os.environ, PYTHONPATH="/repo"), timeout=900)
            report["demo_on_repo_rc"] = rc
        det = {}
        for chk in [c for c in a.checks.split(",") if c]:
            for seed in a.seeds.split(","):
                evdir = tempfile.mkdtemp(prefix="ev_", dir="/var/tmp")
                env2 = dict(os.environ, VERIF_STOP_AT_FIRST=os.environ.get("VERIF_STOP_AT_FIRST", "1"), EAO_REPO=scratch, VERIF_EVIDENCE_DIR=evdir, VERIF_SEED=seed, VERIF_OUT_DIR=os.path.join(evdir, "out"))
                t0 = time.time()
                rc, out = sh("./check %s --tier %s" % (chk, a.tier), cwd=VERIF, env=env2, timeout=7200)
                lines = [l for l in out.splitlines() if l.startswith("VIOLATION") or l.startswith("   oracle")]
                det["%s@seed%s" % (chk, seed)] = dict(rc=rc, detected=(rc == 1 and any(l.startswith("VIOLATION") for l in lines)),
                                                     first=[l[:400] for l in lines[:4]], wall=round(time.time() - t0, 1),
                                                     summary=[l for l in out.splitlines() if l.startswith("[" + chk)][-1:])
                shutil.rmtree(evdir, ignore_errors=True)
        report["checks"] = det
        print(json.dumps(report, indent=1))
        if a.keep_as:
            dst = os.path.join(VERIF, "seeded", a.keep_as)
            os.makedirs(dst, exist_ok=True)
            for f in ("patch.diff", "demo.py"):
                if os.path.exists(os.path.join(mdir, f)) and os.path.abspath(mdir) != os.path.abspath(dst):
                    shutil.copy(os.path.join(mdir, f), os.path.join(dst, f))
            meta2 = dict(meta)
            meta2["validated"] = {k: v for k, v in report.items() if k not in ("mutant",)}
            meta2["ran"] = ["git apply patch.diff on a scratch copy of /repo", "repository test suite (pytest -n 8)",
                            "demo.py with and without the patch", "./check <id> --tier %s with EAO_REPO=<scratch>" % a.tier]
            json.dump(meta2, open(os.path.join(dst, "meta.json"), "w"), indent=1)
        return 0
    finally:
        shutil.rmtree(scratch, ignore_errors=True)


if __name__ == "__main__":
    sys.exit(main())
